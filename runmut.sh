#!/bin/bash
# usage: runmut.sh <patch.diff> <prop> [tier]   -- apply a seeded change to /repo, run a check, restore /repo
patch=$1; prop=$2; tier=${3:-quick}
cd /repo || exit 9
if [ -n "$(git status --porcelain)" ]; then echo "/repo not clean"; exit 9; fi
git apply "$patch" || { echo "PATCH DOES NOT APPLY"; exit 8; }
cd /verif && ./check $prop $tier > /tmp/runmut.out 2>&1; rc=$?
git -C /repo checkout -- . ; git -C /repo clean -fdq
grep -c '^VIOLATION' /tmp/runmut.out | sed 's/^/violation lines: /'
grep -A2 '^VIOLATION' /tmp/runmut.out | head -${LINES_OUT:-6} | cut -c1-${COLS_OUT:-300}
tail -1 /tmp/runmut.out | cut -c1-300
echo "exit=$rc"
