#!/bin/bash
# usage: verify_seed.sh <seeddir>   -- confirms a seeded change in a scratch worktree of /repo's HEAD:
#   patch applies, suite passes with it, demo fails with it and passes without it.
export GOFLAGS=-mod=mod GOPROXY=off GOSUMDB=off GOTOOLCHAIN=local
d=$1; name=$(basename $d)
wt=/tmp/vseed_$name
git -C /repo worktree remove --force $wt >/dev/null 2>&1
git -C /repo worktree add --detach $wt HEAD >/dev/null 2>&1 || { echo "$name: cannot create worktree"; exit 9; }
res="$name:"
cd $wt
if ! git apply $d/patch.diff 2>/dev/null; then
  if git apply --3way $d/patch.diff >/dev/null 2>&1; then res="$res applies(3way)"; else res="$res PATCH-CONFLICT"; echo "$res"; cd /; git -C /repo worktree remove --force $wt; exit 1; fi
else res="$res applies"; fi
if go test -mod=mod -vet=off -count=1 ./... >/tmp/vseed_$name.test 2>&1; then res="$res suite-pass"; else res="$res SUITE-FAIL"; fi
rundemo() {
  if [ -f $d/demo.sh ]; then bash $d/demo.sh $wt >/tmp/vseed_$name.demo 2>&1; return $?; fi
  if [ -f $d/demo_test.go ]; then
    # the demonstration goes into the directory of the package it declares (package x or x_test -> the directory named x)
    pk=$(grep -m1 '^package ' $d/demo_test.go | awk '{print $2}' | sed 's/_test$//')
    dir=$(cd $wt && find . -type d -name "$pk" -not -path './.git/*' | head -1); [ -z "$dir" ] && dir=./test
    cp $d/demo_test.go $wt/$dir/zz_seed_demo_test.go
    go test -mod=mod -vet=off -count=1 -run "^($(grep -o 'func Test[A-Za-z0-9_]*' $d/demo_test.go | sed 's/func //' | grep -v Helper | paste -sd'|'))\$" $dir/ >/tmp/vseed_$name.demo 2>&1; rc=$?
    rm -f $wt/$dir/zz_seed_demo_test.go; return $rc
  fi
  return 99
}
rundemo; a=$?
git checkout -q -- . ; git clean -fdq
rundemo; b=$?
res="$res demo-with-patch=$a demo-without=$b"
echo "$res"
cd /; git -C /repo worktree remove --force $wt >/dev/null 2>&1
