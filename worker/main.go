//go:build verif

// Command verifworker is the in-process driver the /verif harness injects into
// gosk's module through `go build -tags verif -overlay` (it is mapped to
// /repo/cmd/verifworker/main.go; nothing is written under /repo).
//
// It runs exactly the pipeline of cmd/gosk/main.go -- gen.Parse with the
// "Program" entry point, then frontend.Exec(tree, dst) with the return values
// ignored -- in a loop, one request per line of JSON on stdin, one response per
// line on the descriptor that was stdout at start-up.  os.Stdout is re-pointed
// to a capture file so that `GOSK : ...` messages printed with fmt.Printf are
// observed instead of corrupting the protocol.
package main

import (
	"bufio"
	"bytes"
	"encoding/json"
	"fmt"
	"log"
	"os"
	"path/filepath"
	"runtime/debug"
	"strings"
	"syscall"

	"github.com/HobbyOSs/gosk/internal/frontend"
	"github.com/HobbyOSs/gosk/internal/gen"
	"github.com/comail/colog"
)

type request struct {
	ID      int    `json:"id"`
	Src     []byte `json:"src"`               // source text (base64 in JSON)
	Stats   bool   `json:"stats,omitempty"`   // count parser steps (pigeon Statistics)
	Keep    string `json:"keep,omitempty"`    // remember the parsed tree under this key
	Reuse   string `json:"reuse,omitempty"`   // execute a remembered tree instead of parsing Src
	Out     string `json:"out,omitempty"`     // output file name inside the scratch directory
	Prefill []byte `json:"prefill,omitempty"` // bytes written to the output file before Exec
	NoExec  bool   `json:"noexec,omitempty"`  // parse only
}

type response struct {
	ID       int      `json:"id"`
	ParseErr string   `json:"perr,omitempty"`
	Panic    string   `json:"panic,omitempty"`
	Stack    string   `json:"stack,omitempty"`
	Out      []byte   `json:"out"`
	OutMiss  bool     `json:"outmiss,omitempty"`
	OutSize  int64    `json:"outsize,omitempty"` // set when the image was too large to ship (Out holds its first 4 KiB)
	Log      []string `json:"log,omitempty"`
	Stdout   string   `json:"stdout,omitempty"`
	Steps    uint64   `json:"steps,omitempty"`
	CPUus    int64    `json:"cpu_us"`
	Executed bool     `json:"executed,omitempty"`
}

var (
	scratch string
	capture *os.File
	trees   = map[string]any{}
)

func cpuMicros() int64 {
	var ru syscall.Rusage
	if err := syscall.Getrusage(syscall.RUSAGE_SELF, &ru); err != nil {
		return 0
	}
	return ru.Utime.Sec*1e6 + int64(ru.Utime.Usec) + ru.Stime.Sec*1e6 + int64(ru.Stime.Usec)
}

func run(req request) (r response) {
	r.ID = req.ID
	var lb bytes.Buffer
	colog.SetOutput(&lb)
	capture.Truncate(0)
	capture.Seek(0, 0)
	t0 := cpuMicros()
	outName := req.Out
	if outName == "" {
		outName = "out.bin"
	}
	outPath := filepath.Join(scratch, filepath.Base(outName))
	defer func() {
		if p := recover(); p != nil {
			r.Panic = fmt.Sprint(p)
			r.Stack = string(debug.Stack())
		}
		r.CPUus = cpuMicros() - t0
		for _, l := range strings.Split(lb.String(), "\n") {
			if l != "" {
				r.Log = append(r.Log, l)
			}
		}
		if b, err := os.ReadFile(capture.Name()); err == nil {
			r.Stdout = string(b)
		}
		if r.Executed {
			if st, err := os.Stat(outPath); err == nil && st.Size() > 64<<20 {
				// a huge image is not shipped back: only its size and head are reported
				r.OutSize = st.Size()
				if f, e := os.Open(outPath); e == nil {
					head := make([]byte, 4096)
					n, _ := f.Read(head)
					r.Out = head[:n]
					f.Close()
				}
				os.Remove(outPath)
			} else if b, err := os.ReadFile(outPath); err == nil {
				r.Out = b
			} else {
				r.OutMiss = true
			}
		}
	}()
	var tree any
	if req.Reuse != "" {
		t, ok := trees[req.Reuse]
		if !ok {
			r.ParseErr = "verifworker: no remembered tree " + req.Reuse
			return
		}
		tree = t
	} else {
		var stats gen.Stats
		opts := []gen.Option{gen.Entrypoint("Program")}
		if req.Stats {
			opts = append(opts, gen.Statistics(&stats, "no match"))
		}
		t, err := gen.Parse("", req.Src, opts...)
		r.Steps = stats.ExprCnt
		if err != nil {
			r.ParseErr = err.Error()
			return
		}
		tree = t
		if req.Keep != "" {
			trees[req.Keep] = tree
		}
	}
	if req.NoExec {
		return
	}
	if req.Prefill != nil {
		os.WriteFile(outPath, req.Prefill, 0o644)
	} else {
		os.Remove(outPath)
	}
	r.Executed = true
	frontend.Exec(tree, outPath)
	return
}

func main() {
	if len(os.Args) < 2 {
		fmt.Fprintln(os.Stderr, "usage: verifworker <scratch-dir>")
		os.Exit(2)
	}
	scratch = os.Args[1]
	// safety net for the machine running the checks: a runaway allocation ends
	// this worker with "fatal error: out of memory" (observed as a crash) instead
	// of exhausting the host
	lim := syscall.Rlimit{Cur: 12 << 30, Max: 12 << 30}
	syscall.Setrlimit(syscall.RLIMIT_AS, &lim)
	resp := os.Stdout
	var err error
	capture, err = os.OpenFile(filepath.Join(scratch, "stdout.capture"), os.O_RDWR|os.O_CREATE|os.O_TRUNC, 0o644)
	if err != nil {
		fmt.Fprintln(os.Stderr, "verifworker:", err)
		os.Exit(2)
	}
	os.Stdout = capture

	// exactly what cmd/gosk/main.go's setUpColog(false) does
	colog.Register()
	colog.SetDefaultLevel(colog.LInfo)
	colog.SetMinLevel(colog.LInfo)
	colog.SetFlags(log.Lshortfile)
	colog.SetFormatter(&colog.StdFormatter{Colors: false})

	in := bufio.NewReaderSize(os.Stdin, 1<<20)
	w := bufio.NewWriterSize(resp, 1<<20)
	for {
		line, err := in.ReadBytes('\n')
		if len(bytes.TrimSpace(line)) > 0 {
			var req request
			if e := json.Unmarshal(line, &req); e != nil {
				fmt.Fprintln(os.Stderr, "verifworker: bad request:", e)
				os.Exit(3)
			}
			r := run(req)
			j, _ := json.Marshal(r)
			w.Write(j)
			w.WriteByte('\n')
			w.Flush()
		}
		if err != nil {
			return
		}
	}
}
