#!/bin/bash
# usage: mkcensus.sh <prop>...   -- (development, on the repaired tree only) record the exact violation signatures of the thorough tier
# that the listed patterns of KNOWN_FINDINGS.txt absorb; the files are committed and never written by a check.
cd /verif || exit 1
mkdir -p KNOWN_SIGNATURES
for p in "$@"; do
  rm -f KNOWN_SIGNATURES/$p.txt
  # with the census file absent the run uses the patterns alone; DUMP lines are the unlisted ones, so list everything first
  VERIF_NOFINDINGS=1 VERIF_DUMP=1 ./check $p thorough 2>&1 | grep "^DUMP" | sed 's/ ::.*//; s/^DUMP *[0-9]* //' | sort -u > /tmp/census.$p.all
  # keep those a pattern matches = all minus the ones still unlisted with the patterns in force
  VERIF_DUMP=1 ./check $p thorough 2>&1 | grep "^DUMP" | sed 's/ ::.*//; s/^DUMP *[0-9]* //' | sort -u > /tmp/census.$p.unlisted
  comm -23 /tmp/census.$p.all /tmp/census.$p.unlisted > KNOWN_SIGNATURES/$p.txt
  echo "$p: $(wc -l < KNOWN_SIGNATURES/$p.txt) signatures ($(wc -l < /tmp/census.$p.unlisted) unlisted)"
done
