#!/bin/bash
# runs every seeded change against the quick check of the property it targets (or the check named in seeded/<id>/check), four at a
# time (ALLMUT_JOBS), optionally only those whose directory matches ALLMUT_FILTER, each in its own scratch worktree and scratch copy of /verif (runmut2.sh): /repo and /verif/evidence are not touched.
cd ${VERIF_SRC:-/verif}
one() {
  d=$1; n=$(basename $d); p=${n:0:3}
  [ -f $d/check ] && p=$(cat $d/check)
  out=$(./runmut2.sh $PWD/$d/patch.diff $p 2>&1 | tail -2 | tr '\n' ' ' | cut -c1-170)
  [ -f $d/expect-held ] && out="$out (expected to hold: $(cat $d/expect-held))"
  echo "$n -> $p: $out"
}
export -f one
ls -d seeded/*/ | sed 's#/$##' | grep -E "${ALLMUT_FILTER:-.}" | xargs -P ${ALLMUT_JOBS:-4} -I{} bash -c 'one {}' | sort
