#!/bin/bash
# runs every seeded change against the quick check of the property it targets (or the check given in seeded/<id>/check)
cd /verif
for d in seeded/*/; do
  n=$(basename $d); p=${n:0:3}
  [ -f $d/check ] && p=$(cat $d/check)
  out=$(./runmut.sh $PWD/$d/patch.diff $p 2>&1 | tail -2 | tr '\n' ' ' | cut -c1-160)
  [ -f $d/expect-held ] && out="$out (expected to hold: $(cat $d/expect-held))"
  echo "$n -> $p: $out"
done
