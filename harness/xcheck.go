package main

import (
	"bytes"
	"encoding/hex"
	"fmt"
	"os"
	"os/exec"
	"path/filepath"
	"strconv"
	"strings"
)

// The reference decoder is itself monitored: every distinct (bytes, mode) it
// was asked about is also disassembled by binutils objdump, whose text is
// parsed into the same semantic record and compared.

type ODInst struct {
	Len     int
	Text    string
	Mnem    string
	Ops     []string
	Lock    bool
	Rep     bool
	Repne   bool
	Bad     bool
	Data    bool // data16/data32 prefix printed separately (ignored prefix)
	Addr    bool
	SegPfx  int
	SlotOff int64
}

const slotSize = 32

func decqKey(q DecQ) string { return fmt.Sprintf("%d:%s", q.Mode, hex.EncodeToString(q.Bytes)) }

// objdumpAll disassembles the first instruction of every query.
func objdumpAll(env *Env, qs []DecQ) (map[string]ODInst, error) {
	out := map[string]ODInst{}
	od, ok := env.Tools["objdump"]
	if !ok {
		return nil, fmt.Errorf("objdump not available")
	}
	for _, mode := range []int{16, 32} {
		var sel []DecQ
		for _, q := range qs {
			if q.Mode == mode && len(q.Bytes) > 0 {
				sel = append(sel, q)
			}
		}
		if len(sel) == 0 {
			continue
		}
		buf := bytes.Repeat([]byte{0x90}, slotSize*len(sel)+32)
		for i, q := range sel {
			b := q.Bytes
			if len(b) > 15 {
				b = b[:15]
			}
			copy(buf[i*slotSize:], b)
		}
		p := filepath.Join(env.Tmp, fmt.Sprintf("xcheck%d.bin", mode))
		if err := os.WriteFile(p, buf, 0o644); err != nil {
			return nil, err
		}
		m := "i8086"
		if mode == 32 {
			m = "i386"
		}
		cmd := exec.Command(od, "-D", "-b", "binary", "-m", m, "-M", "intel", "--insn-width=16", p)
		txt, err := cmd.Output()
		os.Remove(p)
		if err != nil {
			return nil, fmt.Errorf("objdump: %v", err)
		}
		for _, line := range strings.Split(string(txt), "\n") {
			// "   0:\tb8 01 00 \tmov    ax,0x1"
			parts := strings.SplitN(line, "\t", 3)
			if len(parts) < 2 {
				continue
			}
			as := strings.TrimSuffix(strings.TrimSpace(parts[0]), ":")
			addr, err := strconv.ParseInt(as, 16, 64)
			if err != nil || addr%slotSize != 0 {
				continue
			}
			i := int(addr / slotSize)
			if i >= len(sel) {
				continue
			}
			nb := len(strings.Fields(parts[1]))
			oi := ODInst{Len: nb, SlotOff: addr, SegPfx: -1}
			if len(parts) == 3 {
				oi.Text = strings.TrimSpace(parts[2])
			}
			parseOD(&oi)
			out[decqKey(sel[i])] = oi
		}
	}
	return out, nil
}

func parseOD(oi *ODInst) {
	t := oi.Text
	if i := strings.Index(t, "#"); i >= 0 {
		t = t[:i]
	}
	if i := strings.Index(t, "<"); i >= 0 { // symbolic target annotations
		t = strings.TrimSpace(t[:i])
	}
	if strings.Contains(t, "(bad)") || t == "" {
		oi.Bad = true
		return
	}
	for {
		w, rest, _ := strings.Cut(strings.TrimSpace(t), " ")
		switch w {
		case "lock":
			oi.Lock = true
		case "rep", "repz":
			oi.Rep = true
		case "repnz":
			oi.Repne = true
		case "data16", "data32":
			oi.Data = true
		case "addr16", "addr32":
			oi.Addr = true
		case "es", "cs", "ss", "ds", "fs", "gs":
			if strings.TrimSpace(rest) == "" {
				oi.Mnem = w // a lone segment prefix byte
				return
			}
			oi.SegPfx = map[string]int{"es": 0, "cs": 1, "ss": 2, "ds": 3, "fs": 4, "gs": 5}[w]
		default:
			oi.Mnem = w
			rest = strings.TrimSpace(rest)
			if rest != "" {
				depth := 0
				cur := ""
				for _, c := range rest {
					switch {
					case c == '[':
						depth++
						cur += string(c)
					case c == ']':
						depth--
						cur += string(c)
					case c == ',' && depth == 0:
						oi.Ops = append(oi.Ops, strings.TrimSpace(cur))
						cur = ""
					default:
						cur += string(c)
					}
				}
				oi.Ops = append(oi.Ops, strings.TrimSpace(cur))
			}
			return
		}
		t = rest
		if strings.TrimSpace(t) == "" {
			return
		}
	}
}

var odRegs = func() map[string]Operand {
	m := map[string]Operand{}
	for cls, ns := range regNames {
		for i, n := range ns {
			m[strings.ToLower(n)] = regOp(cls, i)
		}
	}
	for i := 0; i < 8; i++ {
		m[fmt.Sprintf("st(%d)", i)] = regOp(STR, i)
		m[fmt.Sprintf("db%d", i)] = regOp(DREG, i)
	}
	m["st"] = regOp(STR, 0)
	return m
}()

func parseNum(s string) (int64, bool) {
	neg := false
	if strings.HasPrefix(s, "-") {
		neg = true
		s = s[1:]
	} else if strings.HasPrefix(s, "+") {
		s = s[1:]
	}
	var v uint64
	var err error
	if strings.HasPrefix(s, "0x") {
		v, err = strconv.ParseUint(s[2:], 16, 64)
	} else {
		v, err = strconv.ParseUint(s, 10, 64)
	}
	if err != nil {
		return 0, false
	}
	if neg {
		return -int64(v), true
	}
	return int64(v), true
}

// parseODOperand turns one objdump operand into an Operand; ok=false if the
// text is not understood (then only the length and mnemonic are compared).
func parseODOperand(s string, mode int, addrPfx bool) (Operand, bool) {
	s = strings.TrimSpace(s)
	if r, ok := odRegs[s]; ok {
		return r, true
	}
	if v, ok := parseNum(s); ok {
		return immOp(v, 0), true
	}
	if a, b, ok := strings.Cut(s, ":"); ok && !strings.Contains(s, "[") && !strings.Contains(s, "PTR") {
		if sv, ok1 := parseNum(a); ok1 {
			if ov, ok2 := parseNum(b); ok2 {
				return Operand{Kind: KFar, Sel: sv, Off: ov, Seg: -1}, true
			}
		}
	}
	size := -1
	for _, kw := range []struct {
		k string
		n int
	}{{"BYTE PTR ", 8}, {"DWORD PTR ", 32}, {"FWORD PTR ", 48}, {"QWORD PTR ", 64}, {"TBYTE PTR ", 80}, {"XWORD PTR ", 128}, {"WORD PTR ", 16}} {
		if strings.HasPrefix(s, kw.k) {
			size = kw.n
			s = strings.TrimPrefix(s, kw.k)
			break
		}
	}
	seg := -1
	if len(s) > 3 && s[2] == ':' {
		if sn, ok := map[string]int{"es": 0, "cs": 1, "ss": 2, "ds": 3, "fs": 4, "gs": 5}[s[:2]]; ok {
			seg = sn
			s = s[3:]
		}
	}
	asz := mode
	if addrPfx {
		asz = 48 - mode
	}
	mem := Operand{Kind: KMem, Size: 0, Seg: seg, ASize: asz}
	if size > 0 {
		mem.Size = size
	}
	if !strings.HasPrefix(s, "[") {
		// ds:0x1234 style absolute
		v, ok := parseNum(s)
		if !ok {
			return Operand{}, false
		}
		mem.Disp = v
		return mem, true
	}
	if !strings.HasSuffix(s, "]") {
		return Operand{}, false
	}
	body := s[1 : len(s)-1]
	// split into signed terms
	var terms []string
	cur := ""
	for i, c := range body {
		if (c == '+' || c == '-') && i > 0 {
			terms = append(terms, cur)
			cur = ""
			if c == '-' {
				cur = "-"
			}
			continue
		}
		cur += string(c)
	}
	terms = append(terms, cur)
	sawReg := false
	for _, t := range terms {
		if t == "" {
			continue
		}
		if v, ok := parseNum(t); ok {
			mem.Disp += v
			continue
		}
		name, sc, hasSc := strings.Cut(t, "*")
		scale := 1
		if hasSc {
			n, err := strconv.Atoi(sc)
			if err != nil {
				return Operand{}, false
			}
			scale = n
		}
		if name == "eiz" {
			sawReg = true
			mem.ASize = 32
			continue
		}
		r, ok := odRegs[name]
		if !ok || (r.Class != R16 && r.Class != R32) {
			return Operand{}, false
		}
		sawReg = true
		if r.Class == R16 {
			mem.ASize = 16
		} else {
			mem.ASize = 32
		}
		mem.Coef[r.Reg] += scale
	}
	_ = sawReg
	return mem, true
}

var odMnemMap = map[string]string{
	"je": "JE", "jne": "JNE", "jb": "JB", "jae": "JAE", "jbe": "JBE", "ja": "JA", "js": "JS", "jns": "JNS", "jp": "JP", "jnp": "JNP",
	"jl": "JL", "jge": "JGE", "jle": "JLE", "jg": "JG", "jo": "JO", "jno": "JNO",
	"pushaw": "PUSHA", "pushad": "PUSHA", "pusha": "PUSHA", "popaw": "POPA", "popad": "POPA", "popa": "POPA",
	"pushfw": "PUSHF", "pushfd": "PUSHF", "pushf": "PUSHF", "popfw": "POPF", "popfd": "POPF", "popf": "POPF",
	"cbw": "CBW", "cwde": "CBW", "cwd": "CWD", "cdq": "CWD", "iret": "IRET", "iretw": "IRET", "iretd": "IRET",
	"ret": "RET", "retw": "RET", "retd": "RET", "retf": "RETF", "retfw": "RETF", "retfd": "RETF", "lret": "RETF", "lretw": "RETF", "lretd": "RETF",
	"fwait": "WAIT", "int1": "ICEBP", "icebp": "ICEBP", "xlat": "XLAT", "xlatb": "XLAT",
	"leavew": "LEAVE", "leaved": "LEAVE", "leave": "LEAVE", "enterw": "ENTER", "enterd": "ENTER", "enter": "ENTER",
	"movs": "MOVS", "cmps": "CMPS", "stos": "STOS", "lods": "LODS", "scas": "SCAS", "ins": "INS", "outs": "OUTS",
	"jcxz": "JCXZ", "jecxz": "JECXZ", "loop": "LOOP", "loope": "LOOPE", "loopne": "LOOPNE",
	"lgdtw": "LGDT", "lgdtd": "LGDT", "lidtw": "LIDT", "lidtd": "LIDT", "sgdtw": "SGDT", "sgdtd": "SGDT", "sidtw": "SIDT", "sidtd": "SIDT",
	"lgdt": "LGDT", "lidt": "LIDT", "sgdt": "SGDT", "sidt": "SIDT",
	"shl": "SHL", "sal": "SAL", "int3": "INT3", "pause": "PAUSE", "nop": "NOP",
	"callw": "CALL", "calld": "CALL", "call": "CALL", "jmpw": "JMP", "jmpd": "JMP", "jmp": "JMP",
	"pushw": "PUSH", "pushd": "PUSH", "push": "PUSH", "popw": "POP", "popd": "POP", "pop": "POP",
	"fnstsw": "FNSTSW_AX", "fneni(8087 only)": "FNENI", "fndisi(8087 only)": "FNDISI", "fnsetpm(287 only)": "FNSETPM",
	"fneni(8087": "FNENI", "fndisi(8087": "FNDISI", "fnsetpm(287": "FNSETPM",
	"ljmp": "JMPF", "lcall": "CALLF",
}

// xcompare compares the reference decoder's record with objdump's.  Returns ""
// when they agree (as far as objdump's text could be interpreted).
func xcompare(q DecQ, in Inst, oi ODInst) string {
	if oi.Bad {
		if in.Bad != "" {
			return ""
		}
		// opcodes objdump does not know in this mode but the decoder names
		if in.Op == "SALC" || in.Op == "ICEBP" || strings.HasPrefix(in.Op, "X87_") || in.Op == "GETSEC" {
			return ""
		}
		return "objdump says (bad), decoder says " + in.String()
	}
	if (in.Bad == "truncated" || in.Bad == "only prefixes") && oi.Len > len(q.Bytes) {
		return "" // both say: the bytes end in the middle of an instruction
	}
	if in.Bad != "" {
		return "decoder could not decode (" + in.Bad + "), objdump says " + oi.Text
	}
	if oi.Len != in.Len {
		return fmt.Sprintf("length: decoder %d, objdump %d (%s)", in.Len, oi.Len, oi.Text)
	}
	want, ok := odMnemMap[oi.Mnem]
	if !ok {
		want = strings.ToUpper(oi.Mnem)
	}
	got := in.Op
	if got == "SAL" {
		got = "SHL"
	}
	if want == "SAL" {
		want = "SHL"
	}
	if strings.HasPrefix(in.Op, "X87_") || strings.HasSuffix(in.Op, "_TO") {
		return "" // generic x87: only the length is compared
	}
	// far jumps through objdump's jmp/call with seg:off operand
	if (got == "JMPF" || got == "CALLF") && (want == "JMP" || want == "CALL") {
		want += "F"
	}
	if got != want {
		return fmt.Sprintf("operation: decoder %s, objdump %s (%s)", got, want, oi.Text)
	}
	// string instructions, xlat etc.: objdump prints implicit operands
	switch got {
	case "MOVS", "CMPS", "STOS", "LODS", "SCAS", "INS", "OUTS", "XLAT", "FNSTSW_AX", "AAM", "AAD":
		return ""
	}
	if in.Lock != oi.Lock {
		return "lock prefix differs: " + oi.Text
	}
	if len(oi.Ops) != len(in.Ops) {
		// shifts by 1: objdump prints "shl ax,1" (2 operands); decoder agrees.
		return fmt.Sprintf("operand count: decoder %s, objdump %s", in.String(), oi.Text)
	}
	for i, os := range oi.Ops {
		want, ok := parseODOperand(os, q.Mode, in.P67)
		if !ok {
			continue
		}
		g := in.Ops[i]
		switch g.Kind {
		case KReg:
			if want.Kind != KReg || want.Class != g.Class || want.Reg != g.Reg {
				return fmt.Sprintf("operand %d: decoder %s, objdump %s (%s)", i, g, os, oi.Text)
			}
		case KImm:
			if want.Kind != KImm {
				return fmt.Sprintf("operand %d kind: decoder %s, objdump %s (%s)", i, g, os, oi.Text)
			}
			w := in.OpSize
			if w == 0 || g.ImmW == 0 || (g.ImmW < w && got != "ADD" && got != "OR" && got != "ADC" && got != "SBB" && got != "AND" && got != "SUB" && got != "XOR" && got != "CMP" && got != "PUSH" && got != "IMUL") {
				w = maxInt(g.ImmW, 8)
			}
			if g.ImmW == 0 {
				w = 8
			}
			if uint64(want.Imm)&widthMask(w) != uint64(g.Imm)&widthMask(w) {
				return fmt.Sprintf("operand %d immediate: decoder %s, objdump %s (%s)", i, g, os, oi.Text)
			}
		case KRel:
			if want.Kind != KImm {
				return fmt.Sprintf("operand %d kind: decoder %s, objdump %s (%s)", i, g, os, oi.Text)
			}
			w := in.OpSize
			if w == 0 {
				w = q.Mode
			}
			tgt := uint64(oi.SlotOff+int64(in.Len)+g.Imm) & widthMask(w)
			if uint64(want.Imm)&widthMask(w) != tgt {
				return fmt.Sprintf("operand %d target: decoder %s -> %#x, objdump %s (%s)", i, g, tgt, os, oi.Text)
			}
		case KFar:
			if want.Kind != KFar || want.Sel != g.Sel || want.Off != g.Off {
				return fmt.Sprintf("operand %d far: decoder %s, objdump %s (%s)", i, g, os, oi.Text)
			}
		case KMem:
			if want.Kind != KMem {
				return fmt.Sprintf("operand %d kind: decoder %s, objdump %s (%s)", i, g, os, oi.Text)
			}
			if want.Coef != g.Coef {
				return fmt.Sprintf("operand %d address registers: decoder %s, objdump %s (%s)", i, g, os, oi.Text)
			}
			if uint64(want.Disp)&widthMask(g.ASize) != uint64(g.Disp)&widthMask(g.ASize) {
				return fmt.Sprintf("operand %d displacement: decoder %s, objdump %s (%s)", i, g, os, oi.Text)
			}
			if want.Size > 0 && g.Size > 0 && want.Size != g.Size {
				return fmt.Sprintf("operand %d access size: decoder %s, objdump %s (%s)", i, g, os, oi.Text)
			}
			if want.Seg != g.Seg && !(want.Seg == 3 && g.Seg == -1) && !(want.Seg == 2 && g.Seg == -1) {
				return fmt.Sprintf("operand %d segment: decoder %s, objdump %s (%s)", i, g, os, oi.Text)
			}
		}
	}
	return ""
}

// CrossCheck runs objdump over the distinct decoder queries and returns, per
// query key, the disagreement text ("" = agree).
func CrossCheck(env *Env, qs []DecQ) (map[string]string, int, error) {
	seen := map[string]bool{}
	var uniq []DecQ
	for _, q := range qs {
		k := decqKey(q)
		if !seen[k] && len(q.Bytes) > 0 {
			seen[k] = true
			uniq = append(uniq, q)
		}
	}
	ods, err := objdumpAll(env, uniq)
	if err != nil {
		return nil, 0, err
	}
	dis := map[string]string{}
	for _, q := range uniq {
		k := decqKey(q)
		oi, ok := ods[k]
		if !ok {
			dis[k] = "objdump produced no line for this slot"
			continue
		}
		if d := xcompare(q, Decode(q.Bytes, q.Mode), oi); d != "" {
			dis[k] = d
		}
	}
	return dis, len(uniq), nil
}
