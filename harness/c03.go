package main

import (
	"encoding/hex"
	"fmt"
	"os"
	"strings"
)

// ProgCase (C03 / C04 in-program part): one program; every embedded label and
// `$` value must equal origin + the offset reached by walking the output.
type ProgCase struct {
	P     Prog   `json:"prog"`
	Cell_ string `json:"cell"`
	Prop  string `json:"prop"`
	SysK  string `json:"sysk,omitempty"` // systematic programs: the kind of the statement under test
	Ctx   string `json:"ctx,omitempty"`  // C04: branch class | direction | distance class
}

func (c *ProgCase) Kind() string { return "prog" }
func (c *ProgCase) Reqs() []Req  { return []Req{{Src: []byte(c.P.Source())}} }

func upperLen(s PStmt) int {
	switch s.K {
	case "inst", "movl", "lgdt", "meml", "farjmp", "stl":
		return 13
	case "jmp":
		return 6
	case "data":
		n := 0
		for _, it := range s.Items {
			n += itemLen(it, s.W)
		}
		return n
	case "resb":
		return int(s.N)
	case "alignb":
		return int(s.N)
	case "resbto":
		return 1 << 20
	}
	return 0
}

func (c *ProgCase) Judge(rs []Res, env *Env) Outcome {
	r := rs[0]
	o := Outcome{Cell: c.Cell_}
	if ok, why := env.accepted(&r); !ok {
		if (c.Prop == "" || c.Prop == "C03" || c.Prop == "C17") && c.SysK == "" && r.ParseErr == "" && !r.Crashed() {
			// a random program is built from statements gosk assembles correctly today (the clean pool): a refusal leaves some of them
			// unassembled or mis-sized, with labels after them
			pr := c.Prop
			if pr == "" {
				pr = "C03"
			}
			o.Status = Violated
			o.Viols = []Violation{{Sig: fmt.Sprintf("%s|refused-clean-program|%s", pr, diagClass(why)),
				Detail: fmt.Sprintf("a program made of statements from the clean pool is refused (%s); program:\n%s", why, clipStr(c.P.Source(), 1500))}}
			return o
		}
		if c.Prop == "C04" && r.ParseErr == "" && !r.Crashed() {
			// every program of the C04 families is valid by construction (the target is reachable in the mode): a refusal leaves the branch unassembled
			o.Status = Violated
			o.Viols = []Violation{{Sig: fmt.Sprintf("C04|refused|%s", c.Ctx),
				Detail: fmt.Sprintf("a branch whose target is reachable is refused (%s); program:\n%s", why, clipStr(c.P.Source(), 1500))}}
			return o
		}
		if c.Prop == "C05" {
			// every operand list of the data directives is in the property's domain (out-of-range values are truncated, not refused):
			// a program of data statements that is valid by the model must assemble
			onlyLayout := true // a file of nothing but comments and blank lines is refused by the grammar ("no match found"): not a data statement
			for _, st := range c.P.Stmts {
				if st.K != "raw" || strings.HasPrefix(st.Text, "[") {
					onlyLayout = false
				}
			}
			if valid, decided := c.P.staticValid(); valid && decided && !onlyLayout {
				// whatever was refused, the bytes that were written and the location counter must still agree: the program ends in
				// `zend: DD zend`, so the last four bytes hold the address of their own position
				if n := len(c.P.Stmts); n >= 2 && len(r.Out) >= 4 && c.P.Stmts[n-2].K == "label" && c.P.Stmts[n-1].K == "data" && c.P.Stmts[n-1].W == 4 && len(c.P.Stmts[n-1].Items) == 1 && c.P.Stmts[n-1].Items[0].Label == c.P.Stmts[n-2].Label {
					org := int64(0)
					for _, st := range c.P.Stmts {
						if st.K == "org" {
							org = st.N
						}
					}
					got := le(r.Out[len(r.Out)-4:], 4)
					want := int64(uint64(org+int64(len(r.Out)-4)) & 0xffffffff)
					if got != want {
						o.Status = Violated
						o.Viols = []Violation{{Sig: fmt.Sprintf("C05|loc-advance-after-refusal|%s|drift=%+d", c.Ctx, want-got),
							Detail: fmt.Sprintf("part of the program is refused (%s) and afterwards the location counter no longer matches the bytes written: the final `DD zend` holds %#x but stands at %#x; output %s; program:\n%s", why, got, want, hex.EncodeToString(clip(r.Out, 200)), c.P.Source())}}
						return o
					}
				}
				o.Status = Violated
				o.Viols = []Violation{{Sig: fmt.Sprintf("C05|refused-valid|%s|%s", c.Ctx, diagClass(why)),
					Detail: fmt.Sprintf("a program of data directives that is valid by the model is refused (%s); program:\n%s", why, c.P.Source())}}
				return o
			}
		}
		o.Status, o.Note = Rejected, why
		return o
	}
	p := &c.P
	w := p.DoWalk(r.Out)
	o.Decodes = w.Decodes
	lab := p.LabelIndex()
	src := p.Source()
	prop := c.Prop
	if prop == "" {
		prop = "C03"
	}
	hexOut := hex.EncodeToString(clip(r.Out, 200))
	limit := len(p.Stmts)
	if w.FailAt >= 0 && w.FailAt < limit {
		limit = w.FailAt
	}
	addrOf := func(i int) int64 { return w.Origin + int64(w.Off[i]) }
	// 1. absolute values embedded before the point up to which the walk is sound
	for _, ob := range w.Obs {
		if ob.Stmt >= limit {
			continue
		}
		var want int64
		what := ob.Label
		if ob.Dollar {
			want = addrOf(ob.Stmt)
			what = "$"
		} else {
			li, ok := lab[ob.Label]
			if !ok || li >= limit {
				continue
			}
			want = addrOf(li)
		}
		mask := widthMask(8 * ob.Width)
		if uint64(ob.Value)&mask != uint64(want)&mask {
			kind := "label-value"
			if ob.Dollar {
				kind = "dollar-value"
			}
			if ob.Via == "meml" {
				// the label's value is wrong only where it stands inside brackets: reported, and the other places are still judged
				if prop == "C03" {
					o.Status = Violated
					o.Viols = append(o.Viols, Violation{Sig: fmt.Sprintf("C03|mem-label-value|m%d|MOV r,[label]|value=%d", w.ModeAt[ob.Stmt], ob.Value),
						Detail: fmt.Sprintf("statement %d `%s` addresses %#x, but the label %s is at %#x; output %s; program:\n%s", ob.Stmt, p.Stmts[ob.Stmt].Line(), ob.Value, ob.Label, uint64(want)&mask, hexOut, src)})
				}
				continue
			}
			culprit := c.culprit(w, ob, lab, limit)
			if c.SysK != "" {
				culprit = c.SysK
			}
			if prop == "C04" {
				o.Status = Violated
				o.Viols = append(o.Viols, Violation{Sig: fmt.Sprintf("C04|size-drift|m%d|%s|drift=%+d", w.ModeAt[ob.Stmt], c.Ctx, int64(uint64(want)&mask)-int64(uint64(ob.Value)&mask)),
					Detail: fmt.Sprintf("the branch is sized differently by address assignment and by code generation: statement %d `%s` embeds %s = %#x, but it really is at %#x; output %s; program:\n%s",
						ob.Stmt, p.Stmts[ob.Stmt].Line(), what, ob.Value, uint64(want)&mask, hexOut, src)})
				return o
			}
			if prop == "C05" || prop == "C06" {
				o.Status = Violated
				o.Viols = append(o.Viols, Violation{Sig: fmt.Sprintf("%s|loc-advance|%s|drift=%+d", prop, c.Ctx, int64(uint64(want)&mask)-int64(uint64(ob.Value)&mask)),
					Detail: fmt.Sprintf("the location counter did not advance by the bytes emitted: statement %d `%s` embeds %s = %#x, but it really is at %#x; output %s; program:\n%s",
						ob.Stmt, p.Stmts[ob.Stmt].Line(), what, ob.Value, uint64(want)&mask, hexOut, src)})
				return o
			}
			if prop == "C03" || prop == "C17" {
				o.Status = Violated
				o.Viols = append(o.Viols, Violation{Sig: fmt.Sprintf(prop+"|%s|m%d|%s|drift=%+d", kind, w.ModeAt[ob.Stmt], culprit, int64(uint64(want)&mask)-int64(uint64(ob.Value)&mask)),
					Detail: fmt.Sprintf("statement %d `%s` embeds %s = %#x, but it really is at %#x (origin %#x + offset %d); first mis-sized statement: %s; output %s; program:\n%s",
						ob.Stmt, p.Stmts[ob.Stmt].Line(), what, ob.Value, uint64(want)&mask, w.Origin, want-w.Origin, culprit, hexOut, src)})
				return o
			}
		}
	}
	memViols := o.Viols
	// 2. branch targets (C04's in-program part)
	for _, br := range w.Branches {
		if br.Stmt >= limit {
			continue
		}
		var want int64
		if br.Num {
			want = br.Want
		} else {
			li, ok := lab[br.Label]
			if !ok || li >= limit {
				continue
			}
			want = addrOf(li)
		}
		mask := widthMask(br.OpSize)
		if uint64(br.Target)&mask != uint64(want)&mask {
			o.Status = Violated
			ctx := p.Stmts[br.Stmt].Mn
			if c.Ctx != "" {
				ctx = c.Ctx
			}
			o.Viols = append(o.Viols, Violation{Sig: fmt.Sprintf("%s|branch-target|m%d|%s|off=%+d", prop, w.ModeAt[br.Stmt], ctx, int64(uint64(br.Target)&mask)-int64(uint64(want)&mask)),
				Detail: fmt.Sprintf("statement %d `%s` is encoded as %s and lands on %#x, its target is at %#x; output %s; program:\n%s",
					br.Stmt, p.Stmts[br.Stmt].Line(), br.In, br.Target, uint64(want)&mask, hexOut, src)})
			return o
		}
	}
	// 3. the last label versus the real end of the output (needs no complete walk):
	//    "the total output length equals the sum of the statement sizes used for address assignment"
	if (prop == "C03" || prop == "C17") && len(p.Stmts) > 0 && p.Stmts[len(p.Stmts)-1].K == "label" {
		fin := p.Stmts[len(p.Stmts)-1].Label
		for _, ob := range w.Obs {
			if ob.Stmt >= limit || ob.Label != fin || ob.Dollar {
				continue
			}
			mask := widthMask(8 * ob.Width)
			want := w.Origin + int64(len(r.Out))
			if uint64(ob.Value)&mask != uint64(want)&mask {
				culprit := c.SysK
				if culprit == "" {
					culprit = "program"
					if w.FailAt >= 0 && w.FailAt < len(p.Stmts) {
						culprit = "near " + stmtKindOf(p.Stmts[w.FailAt])
					}
				}
				o.Status = Violated
				o.Viols = append(o.Viols, Violation{Sig: fmt.Sprintf(prop+"|total-length|m%d|%s|drift=%+d", w.ModeAt[ob.Stmt], culprit, int64(uint64(want)&mask)-int64(uint64(ob.Value)&mask)),
					Detail: fmt.Sprintf("the label placed after the last statement has the value %#x (statement %d `%s`), but origin %#x + the %d bytes emitted = %#x: the statement sizes used for address assignment do not add up to the output; walk: %s; output %s; program:\n%s",
						ob.Value, ob.Stmt, p.Stmts[ob.Stmt].Line(), w.Origin, len(r.Out), uint64(want)&mask, w.FailWhy, hexOut, src)})
				return o
			}
			break
		}
	}
	if prop == "C04" && w.FailAt >= 0 && w.FailAt < len(p.Stmts) && p.Stmts[w.FailAt].K == "jmp" && w.FailKind == "encoding" {
		o.Status = Violated
		o.Viols = []Violation{{Sig: fmt.Sprintf("C04|wrong-branch|m%d|%s", w.ModeAt[w.FailAt], c.Ctx),
			Detail: fmt.Sprintf("%s; output %s; program:\n%s", w.FailWhy, hexOut, src)}}
		return o
	}
	if prop == "C17" && w.FailAt >= 0 && w.FailAt < len(p.Stmts) && w.FailKind == "encoding" {
		// every statement of a C17 program comes from the pool gosk encodes correctly in its own mode: bytes that do not decode
		// to the statement in the mode in force where it stands were encoded for another mode
		o.Status = Violated
		o.Viols = []Violation{{Sig: fmt.Sprintf("C17|wrong-mode-encoding|m%d|%s", w.ModeAt[w.FailAt], stmtKindOf(p.Stmts[w.FailAt])),
			Detail: fmt.Sprintf("%s (mode in force: %d); output %s; program:\n%s", w.FailWhy, w.ModeAt[w.FailAt], hexOut, src)}}
		return o
	}
	if (prop == "C05" || prop == "C06") && w.FailAt >= 0 {
		tag, kindOf := "end", "end"
		if w.FailAt < len(p.Stmts) {
			tag, kindOf = p.Stmts[w.FailAt].Tag, p.Stmts[w.FailAt].K
		}
		if tag == "" {
			tag = kindOf
		}
		o.Status = Violated
		o.Viols = []Violation{{Sig: fmt.Sprintf("%s|%s|%s", prop, tag, w.FailKind),
			Detail: fmt.Sprintf("%s; output %s; program:\n%s", w.FailWhy, hexOut, src)}}
		return o
	}
	if w.FailAt >= 0 {
		// the walk could not be completed: is it the location counter?
		if w.FailAt < len(p.Stmts) && p.Stmts[w.FailAt].K == "resbto" || (w.FailAt > 0 && w.FailAt <= len(p.Stmts) && w.FailKind != "encoding" && c.hasBefore(w.FailAt, "resbto")) {
			if prop == "C03" {
				o.Status = Violated
				o.Viols = []Violation{{Sig: fmt.Sprintf("C03|dollar-drift|m%d|%s", w.ModeAt[minInt(w.FailAt, len(p.Stmts)-1)], c.firstKindBefore(w.FailAt)),
					Detail: fmt.Sprintf("`RESB addr-$` did not pad up to addr: %s; output %s; program:\n%s", w.FailWhy, hexOut, src)}}
				return o
			}
		}
		o.Status, o.Note = Inconclusive, "walk stopped ("+w.FailKind+"): "+oneLine(w.FailWhy, 120)
		return o
	}
	if len(memViols) > 0 {
		o.Status, o.Viols = Violated, memViols
		return o
	}
	o.Status = Held
	return o
}

func (c *ProgCase) hasBefore(i int, kind string) bool {
	for k := 0; k < i && k < len(c.P.Stmts); k++ {
		if c.P.Stmts[k].K == kind {
			return true
		}
	}
	return false
}

func (c *ProgCase) firstKindBefore(i int) string {
	for k := 0; k < i && k < len(c.P.Stmts); k++ {
		s := c.P.Stmts[k]
		if s.K == "inst" || s.K == "jmp" || s.K == "movl" || s.K == "data" {
			return stmtKindOf(s)
		}
	}
	return "?"
}

// culprit: the program gives gosk's value of several labels; the first label
// (in address order) whose value is off brackets the mis-sized statement.
func (c *ProgCase) culprit(w *Walk, bad Obs, lab map[string]int, limit int) string {
	// gosk's idea of each label from any observation
	type lv struct {
		idx   int
		val   int64
		width int
	}
	var seen []lv
	for _, ob := range w.Obs {
		if ob.Dollar || ob.Stmt >= limit {
			continue
		}
		if li, ok := lab[ob.Label]; ok && li < limit {
			seen = append(seen, lv{li, ob.Value, ob.Width})
		}
	}
	lastGood, firstBad := -1, len(c.P.Stmts)
	for _, s := range seen {
		mask := widthMask(8 * s.width)
		good := uint64(s.val)&mask == uint64(w.Origin+int64(w.Off[s.idx]))&mask
		if good && s.idx > lastGood && s.idx < firstBad {
			lastGood = s.idx
		}
		if !good && s.idx < firstBad {
			firstBad = s.idx
		}
	}
	if lastGood > firstBad {
		lastGood = -1
	}
	for k := lastGood + 1; k < firstBad && k < len(c.P.Stmts); k++ {
		s := c.P.Stmts[k]
		switch s.K {
		case "inst", "jmp", "movl", "data", "resb", "resbto", "alignb":
			if s.K == "jmp" {
				return "jmp " + s.Mn
			}
			if s.K == "movl" {
				return "MOV r,label"
			}
			if s.K == "inst" || s.K == "data" {
				return stmtKindOf(s)
			}
			return s.K
		}
	}
	return "?"
}

func init() { registerKind("prog", func() Case { return &ProgCase{} }) }

// ---- generators ------------------------------------------------------------------

var c03Origins = []int64{-1, 0, 0x7c00, 0xc200, 0x280000}

func probeReg(mode int, k int) *XOp {
	var r XOp
	if mode == 32 || k%3 == 0 {
		r = xgpr(32, k%8)
	} else {
		r = xgpr(16, k%8)
	}
	return &r
}

// systematic: ORG o / forward probe / K / L: / backward probes
func c03Systematic(r *Rand, mode int, org int64, k PStmt, idx int) *ProgCase {
	p := Prog{}
	if org >= 0 {
		p.Stmts = append(p.Stmts, PStmt{K: "org", N: org})
	}
	if mode == 32 {
		p.Stmts = append(p.Stmts, PStmt{K: "bits", N: 32})
	}
	lw := 2
	if mode == 32 {
		lw = 4
	}
	p.Stmts = append(p.Stmts,
		PStmt{K: "movl", Reg: probeReg(mode, idx+3), Label: "zend"},
		PStmt{K: "label", Label: "first"},
		PStmt{K: "movl", Reg: probeReg(mode, idx), Label: "after"},
		k,
		PStmt{K: "label", Label: "after"},
		PStmt{K: "data", W: lw, Items: []DItem{{Kind: "label", Label: "after", Text: "after"}, {Kind: "label", Label: "first", Text: "first"}, {Kind: "dollar", Text: "$"}}},
		PStmt{K: "movl", Reg: probeReg(mode, idx+1), Label: "after"},
		PStmt{K: "movl", Reg: probeReg(mode, idx+2), Label: "$"},
		PStmt{K: "lgdt", Label: "after"},
	)
	if idx%5 == 0 {
		// a label inside the brackets of a memory operand is one more place where its value is embedded
		p.Stmts = append(p.Stmts, PStmt{K: "meml", Reg: probeReg(mode, idx+4), Label: "first"})
	}
	p.Stmts = append(p.Stmts,
		PStmt{K: "jmp", Mn: Pick(r, []string{"JMP", "JE", "JNZ", "CALL", "JC"}), Label: "after"},
		PStmt{K: "data", W: 4, Items: []DItem{{Kind: "label", Label: "first", Text: "first"}}},
		PStmt{K: "label", Label: "zend"},
	)
	return &ProgCase{P: p, Cell_: fmt.Sprintf("sys m%d org=%d %s", mode, org, stmtKindOf(k)), SysK: stmtKindOf(k)}
}

// random program: 5-40 statements, labels anywhere, references before and
// after definition.
func c03Random(r *Rand, mode int, org int64, withJumps bool) *ProgCase {
	p := Prog{}
	if org >= 0 {
		p.Stmts = append(p.Stmts, PStmt{K: "org", N: org})
	}
	if mode == 32 {
		p.Stmts = append(p.Stmts, PStmt{K: "bits", N: 32})
	}
	n := r.Range(5, 40)
	nl := 0
	var body []PStmt
	for i := 0; i < n; i++ {
		switch x := r.Intn(14); {
		case x < 2:
			body = append(body, PStmt{K: "label", Label: fmt.Sprintf("L%d", nl)})
			nl++
		case x == 2:
			body = append(body, PStmt{K: "alignb", N: int64(Pick(r, []int{2, 4, 8, 16}))})
		case x == 3:
			body = append(body, PStmt{K: "resb", N: int64(r.Range(0, 30))})
		default:
			body = append(body, poolStmtSized(r, mode))
		}
	}
	if r.Chance(1, 3) && org >= 0 {
		// pad up to a fixed address before the final label
		body = append(body, PStmt{K: "resbto", N: org + 0x600})
	}
	body = append(body, PStmt{K: "label", Label: fmt.Sprintf("L%d", nl)})
	nl++
	// defined-so-far bookkeeping to place references
	defIdx := map[string]int{}
	for i, s := range body {
		if s.K == "label" {
			defIdx[s.Label] = i
		}
	}
	var out []PStmt
	lw := 2
	if mode == 32 {
		lw = 4
	}
	for i, s := range body {
		out = append(out, s)
		if i < len(body)-1 && s.K != "resbto" && !(i+1 < len(body) && body[i+1].K == "resbto" && false) && r.Chance(1, 4) {
			// a reference to some label
			l := fmt.Sprintf("L%d", r.Intn(nl))
			defined := defIdx[l] <= i
			switch r.Intn(5) {
			case 0, 1:
				if r.Chance(1, 5) {
					out = append(out, PStmt{K: "lgdt", Label: l})
				} else {
					out = append(out, PStmt{K: "movl", Reg: probeReg(mode, r.Intn(8)), Label: l})
				}
			case 2:
				if defined {
					// the label alone, or among numbers on either side of it
					items := []DItem{{Kind: "label", Label: l, Text: l}}
					switch r.Intn(4) {
					case 1:
						items = append([]DItem{numItem(poolImm(r, 16), 1)}, items...)
					case 2:
						items = append(items, numItem(poolImm(r, 16), 1))
					case 3:
						items = append(append([]DItem{numItem(poolImm(r, 16), 1), numItem(int64(r.Intn(100)), 0)}, items...), numItem(poolImm(r, 16), 1))
					}
					out = append(out, PStmt{K: "data", W: Pick(r, []int{2, 4}), Items: items})
				} else {
					out = append(out, PStmt{K: "movl", Reg: probeReg(mode, r.Intn(8)), Label: "$"})
				}
			case 3:
				out = append(out, PStmt{K: "data", W: lw, Items: []DItem{{Kind: "dollar", Text: "$"}, numItem(poolImm(r, 16), 1)}})
			case 4:
				if withJumps {
					// distance bound in 16-bit mode: stay within the short range where pass 1 and codegen agree (R11 / F301)
					lo, hi := i, defIdx[l]
					if lo > hi {
						lo, hi = hi, lo
					}
					dist := 0
					for k := lo; k <= hi && k < len(body); k++ {
						dist += upperLen(body[k]) + 13
					}
					if mode == 32 || dist < 110 {
						out = append(out, PStmt{K: "jmp", Mn: Pick(r, []string{"JMP", "JE", "JNE", "JB", "JAE", "JS", "JNZ", "CALL"}), Label: l})
						if !defined && r.Chance(1, 2) {
							// a second forward reference to the same, still undefined label (the first one leaves a placeholder in the symbol table)
							out = append(out, PStmt{K: "jmp", Mn: Pick(r, []string{"JE", "JMP", "JNZ"}), Label: l})
						}
					}
				}
			}
		}
	}
	if r.Chance(1, 3) {
		// an EQU that is another name for a label: defined at a random place (before or after the label, before or after
		// branches have mentioned the label), used as an immediate anywhere after it and as data after the label
		l := fmt.Sprintf("L%d", r.Intn(nl))
		alias := "AL_" + l
		k := r.Intn(len(out))
		for out[k].K == "resbto" || (k+1 < len(out) && out[k+1].K == "resbto") {
			k = r.Intn(len(out))
		}
		rest := append([]PStmt{}, out[k:]...)
		out = append(append(out[:k:k], PStmt{K: "equ", Label: alias, Text: l, Tag: "EQU"}), rest...)
		defAt := len(out)
		for i, s := range out {
			if s.K == "label" && s.Label == l {
				defAt = i
			}
		}
		for n := 0; n < 3; n++ {
			j := k + 1 + r.Intn(len(out)-k-1)
			if out[j].K == "resbto" || (j+1 < len(out) && out[j+1].K == "resbto") || j >= len(out)-1 {
				continue
			}
			var use PStmt
			if j > defAt && r.Chance(1, 2) {
				use = PStmt{K: "data", W: Pick(r, []int{2, 4}), Items: []DItem{{Kind: "label", Label: l, Text: alias}}}
			} else {
				use = PStmt{K: "movl", Reg: probeReg(mode, r.Intn(8)), Label: l, Text: alias}
			}
			rest := append([]PStmt{}, out[j+1:]...)
			out = append(append(out[:j+1:j+1], use), rest...)
			if j < defAt {
				defAt++
			}
		}
		if out[len(out)-1].K != "label" {
			panic("final label lost")
		}
	}
	if r.Chance(1, 3) {
		// a label on the very first line (address = origin, 0 without ORG), referenced from data and code
		top := fmt.Sprintf("L%d", nl)
		nl++
		p.Stmts = append(p.Stmts, PStmt{K: "label", Label: top})
		refs := []PStmt{
			{K: "data", W: lw, Items: []DItem{{Kind: "label", Label: top, Text: top}, numItem(int64(r.Intn(200)), 0)}},
			{K: "movl", Reg: probeReg(mode, r.Intn(8)), Label: top},
			{K: "data", W: 4, Items: []DItem{{Kind: "label", Label: top, Text: top}}},
		}
		k := r.Intn(len(out))
		for out[k].K == "resbto" || (k+1 < len(out) && out[k+1].K == "resbto") {
			k = r.Intn(len(out))
		}
		rest := append([]PStmt{}, out[k:]...)
		out = append(append(out[:k:k], Pick(r, refs)), rest...)
		if out[len(out)-1].K != "label" {
			panic("final label lost")
		}
	}
	p.Stmts = append(p.Stmts, PStmt{K: "movl", Reg: probeReg(mode, r.Intn(8)), Label: fmt.Sprintf("L%d", nl-1-boolInt(p.Stmts != nil && len(p.Stmts) > 0 && p.Stmts[len(p.Stmts)-1].K == "label"))})
	p.Stmts = append(p.Stmts, out...)
	return &ProgCase{P: p, Cell_: fmt.Sprintf("rand m%d org=%d n=%d", mode, org, len(out)/8)}
}

func init() {
	props["C03"] = propCheck{run: func(env *Env, rep *Report) {
		env.InitBaseline()
		r := NewRand(env.Seed, "C03")
		var cases []Case
		nsys, nrand := 600, 1500
		if env.Tier == "thorough" {
			nsys, nrand = 12000, 40000
		}
		for i := 0; i < nsys; i++ {
			mode := 16 + 16*(i%2)
			org := c03Origins[(i/2)%len(c03Origins)]
			cases = append(cases, c03Systematic(r, mode, org, poolStmt(r, mode), i))
		}
		// every instruction instance of the C01 space followed by a label
		insts := genC01()
		insts = append(insts, sampleByCell(r, genC02(), 1)...)
		if env.Tier == "quick" {
			insts = sampleByCell(r, insts, 1)
			insts = Sample(r, insts, 4000)
		}
		for i, ic := range insts {
			x := ic.X
			pc := c03Systematic(r, x.Mode, c03Origins[i%len(c03Origins)], PStmt{K: "inst", X: &x}, i)
			pc.Cell_ = "inst " + x.Cell
			pc.SysK = x.Cell
			cases = append(cases, pc)
		}
		if os.Getenv("VERIF_C03") == "sys" {
			nrand = 0
		}
		for i := 0; i < nrand; i++ {
			mode := 16 + 16*(i%2)
			org := c03Origins[(i/2)%len(c03Origins)]
			if i%8 == 7 {
				// programs that switch mode between statement groups (statement texts recur in the other mode)
				pc := genC17Walk(r)
				pc.Prop = "C03"
				pc.Cell_ = "rand mode-switching"
				cases = append(cases, pc)
				continue
			}
			pc := c03Random(r, mode, org, true)
			if i%4 == 1 {
				twinNames(r, &pc.P)
			}
			cases = append(cases, pc)
		}
		// 32-bit programs whose addresses lie around and above 2^31 (labels there are negative as int32)
		for i := 0; i < nrand/12; i++ {
			pc := c03Random(r, 32, []int64{0x80000000, 0x7fffff00, 0xfffff000, 0x7ffffff0}[i%4], true)
			pc.Cell_ = "high-origin " + pc.Cell_
			cases = append(cases, pc)
		}
		rep.Rule = "32-bit random programs at origins 0x7fffff00, 0x7ffffff0, 0x80000000, 0xfffff000; programs from the clean pool with labels: (a) systematic `ORG o / MOV r,after / K / after: / DW after,first,$ / MOV r,after / MOV r,$ / Jcc after / ...` for seeded statement kinds K of every pool family, both modes, origins {none,0,0x7c00,0xc200}; " +
			"(b) random programs of 5-40 statements (instructions of every size class, DB/DW/DD, RESB, ALIGNB, RESB addr-$) with labels at random positions referenced before and after definition, every fourth with two labels whose names differ only in `.`/`$` against `_`; " +
			"oracle: the walker recovers every statement's true offset from the output and every embedded label/$ value and branch target must equal origin+offset; non-trivial = accepted and walked; distinct = (generator, mode, origin, statement kind / size bucket) cells"
		outs := RunCases(env, cases)
		xcheckProg(env, rep, outs)
		for i := 0; i < len(cases) && len(rep.Samples) < 4; i += len(cases)/4 + 1 {
			rep.AddSample(map[string]any{"program": cases[i].(*ProgCase).P.Source(), "verdict": outs[i].Status.String()})
		}
		rep.Add(cases, outs)
	}}
}

// twinNames renames two labels of a program to names that differ in one character only, `.` or `$` against `_` (all three are
// ordinary characters of a NASK label name).  The dotted/dollar name goes to a label no branch refers to: gosk at the pinned
// commit loses a branch to such a name (listed), while MOV/DW/DD/LGDT/EQU uses are fine.
func twinNames(r *Rand, p *Prog) {
	branchT := map[string]bool{}
	var labs, free []string
	for _, s := range p.Stmts {
		if s.K == "jmp" && !s.Num {
			branchT[s.Label] = true
		}
		if s.K == "label" {
			labs = append(labs, s.Label)
		}
	}
	for _, l := range labs {
		if !branchT[l] {
			free = append(free, l)
		}
	}
	if len(free) == 0 || len(labs) < 2 {
		return
	}
	a := Pick(r, free)
	b := Pick(r, labs)
	for b == a {
		b = Pick(r, labs)
	}
	stem := Pick(r, []string{"rd", "L", "read", "x9"})
	tail := Pick(r, []string{"k", "retry", "0", "b_c"})
	m := map[string]string{a: stem + Pick(r, []string{".", "$"}) + tail, b: stem + "_" + tail}
	p.RenameLabels(m)
}

// xcheckProg cross-checks the decoder queries made while walking.
func xcheckProg(env *Env, rep *Report, outs []Outcome) {
	var qs []DecQ
	for _, o := range outs {
		qs = append(qs, o.Decodes...)
	}
	dis, nq, err := CrossCheck(env, qs)
	if err != nil {
		env.Assume("objdump cross-check of the reference decoder not performed: " + err.Error())
		return
	}
	for i := range outs {
		for _, q := range outs[i].Decodes {
			if d, bad := dis[decqKey(q)]; bad {
				outs[i] = Outcome{Status: Inconclusive, Cell: outs[i].Cell, Note: "oracle disagreement: " + d}
				break
			}
		}
	}
	rep.Extra["oracle_queries_crosschecked"] = addInt(rep.Extra["oracle_queries_crosschecked"], nq)
	rep.Extra["oracle_disagreements"] = addInt(rep.Extra["oracle_disagreements"], len(dis))
	if len(dis) > 0 {
		var ss []string
		for k, v := range dis {
			if len(ss) < 8 {
				ss = append(ss, k+": "+v)
			}
		}
		rep.Extra["oracle_disagreement_samples"] = ss
	}
}

// diagClass: the wording of a refusal with its variable parts removed (digits, quoted text), for signatures.
func diagClass(why string) string {
	var b strings.Builder
	inQuote := false
	for _, c := range why {
		switch {
		case c == '"' || c == '\'':
			inQuote = !inQuote
		case inQuote:
		case c >= '0' && c <= '9':
			b.WriteByte('N')
		case c == '|':
			b.WriteByte('/')
		default:
			b.WriteRune(c)
		}
	}
	t := strings.Join(strings.Fields(b.String()), " ")
	for strings.Contains(t, "NN") {
		t = strings.ReplaceAll(t, "NN", "N")
	}
	if len(t) > 90 {
		t = t[:90]
	}
	return t
}
