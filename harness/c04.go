package main

import (
	"bytes"
	"encoding/hex"
	"fmt"
	"strings"
)

var jumpMnemonics = []string{"JA", "JAE", "JB", "JBE", "JC", "JE", "JG", "JGE", "JL", "JLE", "JMP", "JNA", "JNAE",
	"JNB", "JNBE", "JNC", "JNE", "JNG", "JNGE", "JNL", "JNLE", "JNO", "JNP", "JNS", "JNZ", "JO", "JP", "JPE", "JPO", "JS", "JZ"}

func branchClass(mn string) string {
	switch mn {
	case "JMP", "CALL":
		return mn
	}
	return "Jcc"
}

// distance class of a displacement measured from the end of the shortest form
func distClass(d int) string {
	switch {
	case d >= -128 && d <= 127:
		if d == -128 || d == 127 {
			return "rel8-edge"
		}
		return "rel8"
	case d >= -32768 && d <= 32767:
		if d <= -126 && d >= -140 || d >= 128 && d <= 140 {
			return "just-beyond-rel8"
		}
		return "rel16"
	}
	return "beyond-rel16"
}

func filler(kind, n int) []PStmt {
	switch kind {
	case 0:
		return []PStmt{{K: "resb", N: int64(n)}}
	case 1:
		var out []PStmt
		for i := 0; i < n; i++ {
			out = append(out, PStmt{K: "inst", X: mkInst("NOP", 16)})
		}
		return out
	default:
		var out []PStmt
		for n > 0 {
			k := n
			if k > 16 {
				k = 16
			}
			s := PStmt{K: "data", W: 1}
			for i := 0; i < k; i++ {
				s.Items = append(s.Items, numItem(int64(0x90), 1))
			}
			out = append(out, s)
			n -= k
		}
		return out
	}
}

// c04Case builds one branch program.  d is the displacement the SHORTEST form
// of the branch would encode (CALL has no short form: measured from its
// near form in the mode).
// c04Spelling: how a numeric target is written: 0 = a literal, 1 = relative to `$`, 2 = through a constant EQU.
var c04Spelling = 0

func c04Case(mn string, mode int, org int64, d int, fill int, labelsAfter bool, numeric bool) *ProgCase {
	pc := c04CaseLit(mn, mode, org, d, fill, labelsAfter, numeric)
	if pc == nil || !numeric || c04Spelling == 0 {
		return pc
	}
	for i := range pc.P.Stmts {
		s := &pc.P.Stmts[i]
		if s.K != "jmp" || !s.Num {
			continue
		}
		switch c04Spelling {
		case 1:
			// the branch's own address: origin + bytes before it; every statement before it has a size known from the source (a probe of 3/5/6 bytes or nothing)
			o := org
			if o < 0 {
				o = 0
			}
			pre := int64(0)
			if labelsAfter {
				pre = 3
				if probeReg(mode, 1).Class == R32 {
					pre = 5
					if mode == 16 {
						pre = 6
					}
				}
			}
			if d < 0 {
				// backward layout: target label first, then the filler, then the branch
				short := 2
				if mn == "CALL" {
					short = 3
					if mode == 32 {
						short = 5
					}
				}
				pre += int64(-d - short)
			}
			rel := s.N - (o + pre)
			if rel >= 0 {
				s.Text = fmt.Sprintf("$+%d", rel)
			} else {
				s.Text = fmt.Sprintf("$-%d", -rel)
			}
			pc.Ctx = strings.Replace(pc.Ctx, "|numeric|", "|numeric-dollar|", 1)
		case 2:
			s.Text = "TGT"
			k := 0
			for k < len(pc.P.Stmts) && (pc.P.Stmts[k].K == "org" || pc.P.Stmts[k].K == "bits") {
				k++
			}
			rest := append([]PStmt{}, pc.P.Stmts[k:]...)
			pc.P.Stmts = append(append(pc.P.Stmts[:k:k], PStmt{K: "equ", Label: "TGT", Text: fmt.Sprintf("0x%x", s.N), N: s.N}), rest...)
			pc.Ctx = strings.Replace(pc.Ctx, "|numeric|", "|numeric-equ|", 1)
		}
		break
	}
	pc.Cell_ += fmt.Sprintf(" spelling=%d", c04Spelling)
	return pc
}

func c04CaseLit(mn string, mode int, org int64, d int, fill int, labelsAfter bool, numeric bool) *ProgCase {
	p := Prog{}
	if org >= 0 {
		p.Stmts = append(p.Stmts, PStmt{K: "org", N: org})
	}
	o := org
	if o < 0 {
		o = 0
	}
	if mode == 32 {
		p.Stmts = append(p.Stmts, PStmt{K: "bits", N: 32})
	}
	short := 2
	if mn == "CALL" {
		short = 3
		if mode == 32 {
			short = 5
		}
	}
	probeW := func(k int) *XOp { return probeReg(mode, k) }
	if labelsAfter {
		p.Stmts = append(p.Stmts, PStmt{K: "movl", Reg: probeW(1), Label: "zend"})
	}
	br := PStmt{K: "jmp", Mn: mn, Label: "target"}
	dir := "fwd"
	if d >= 0 {
		// forward: branch, filler of d bytes, target
		pre := 0
		if labelsAfter {
			pre = 3
			if probeW(1).Class == R32 {
				pre = 5
				if mode == 16 {
					pre = 6
				}
			}
		}
		if numeric {
			br.Num = true
			br.N = o + int64(pre+short+d)
			br.Text = fmt.Sprintf("0x%x", br.N)
			br.Label = ""
		}
		p.Stmts = append(p.Stmts, br)
		p.Stmts = append(p.Stmts, filler(fill, d)...)
		p.Stmts = append(p.Stmts, PStmt{K: "label", Label: "target"}, PStmt{K: "inst", X: mkInst("HLT", mode)})
	} else {
		dir = "back"
		n := -d - short
		if n < 0 {
			return nil
		}
		pre := 0
		if labelsAfter {
			pre = 3
			if probeW(1).Class == R32 {
				pre = 5
				if mode == 16 {
					pre = 6
				}
			}
		}
		p.Stmts = append(p.Stmts, PStmt{K: "label", Label: "target"})
		p.Stmts = append(p.Stmts, filler(fill, n)...)
		if numeric {
			br.Num = true
			br.N = o + int64(pre)
			br.Text = fmt.Sprintf("0x%x", br.N)
			br.Label = ""
		}
		p.Stmts = append(p.Stmts, br)
	}
	if labelsAfter {
		p.Stmts = append(p.Stmts, PStmt{K: "inst", X: mkInst("NOP", mode)}, PStmt{K: "label", Label: "after"},
			PStmt{K: "data", W: 2, Items: []DItem{{Kind: "label", Label: "after", Text: "after"}}},
			PStmt{K: "label", Label: "zend"})
	}
	if d >= 0 && d < 120 && !numeric && labelsAfter && (d%7 == 3) { // within rel8 of both references: 16-bit relaxation (F401) is not this variation's subject
		// a second forward reference to the same (still undefined) target right after the first
		for i := range p.Stmts {
			if p.Stmts[i].K == "jmp" {
				second := p.Stmts[i]
				second.Mn = "JE"
				rest := append([]PStmt{second}, p.Stmts[i+1:]...)
				p.Stmts = append(p.Stmts[:i+1:i+1], rest...)
				break
			}
		}
	}
	tk := "label"
	if numeric {
		tk = "numeric"
	}
	ctx := fmt.Sprintf("%s|%s|%s|%s", branchClass(mn), tk, dir, distClass(d))
	return &ProgCase{P: p, Prop: "C04", Ctx: ctx, Cell_: fmt.Sprintf("%s m%d %s %s %s after=%v", mn, mode, tk, dir, distClass(d), labelsAfter)}
}

// c04Switch: the branch stands right after (or long before) a [BITS] directive
// that changes the mode: its form must be the one of the mode in force where
// it stands, whatever the mode of its neighbours and of the end of the file.
func c04Switch(mn string, layout int, d int, org int64, from int) *ProgCase {
	to := 48 - from // 16 <-> 32
	p := Prog{}
	if org >= 0 {
		p.Stmts = append(p.Stmts, PStmt{K: "org", N: org})
	}
	if from == 32 {
		p.Stmts = append(p.Stmts, PStmt{K: "bits", N: 32})
	}
	br := PStmt{K: "jmp", Mn: mn, Label: "target"}
	fill := func(n int) []PStmt { return filler(2, n) }
	mov := func(mode int) PStmt { return PStmt{K: "inst", X: mkInst("NOP", mode)} }
	names := []string{"switch-branch-fwd", "switch-branch-back", "branch-first-switch-later", "label-switch-branch"}
	switch layout {
	case 0: // code, switch, branch forward
		p.Stmts = append(p.Stmts, mov(from), PStmt{K: "bits", N: int64(to)}, br)
		p.Stmts = append(p.Stmts, fill(d)...)
		p.Stmts = append(p.Stmts, PStmt{K: "label", Label: "target"}, PStmt{K: "inst", X: mkInst("HLT", to)})
	case 1: // target, filler, switch, branch backward
		p.Stmts = append(p.Stmts, PStmt{K: "label", Label: "target"})
		p.Stmts = append(p.Stmts, fill(d)...)
		p.Stmts = append(p.Stmts, PStmt{K: "bits", N: int64(to)}, br, PStmt{K: "inst", X: mkInst("HLT", to)})
	case 2: // the branch is the first statement of the file, the mode changes later
		p.Stmts = append(p.Stmts, br)
		p.Stmts = append(p.Stmts, fill(d)...)
		p.Stmts = append(p.Stmts, PStmt{K: "label", Label: "target"}, mov(from), PStmt{K: "bits", N: int64(to)},
			PStmt{K: "label", Label: "spin"}, PStmt{K: "inst", X: mkInst("HLT", to)}, PStmt{K: "jmp", Mn: "JMP", Label: "spin"})
	default: // switch, label, branch to a label after it, then back to the first mode
		p.Stmts = append(p.Stmts, mov(from), PStmt{K: "bits", N: int64(to)}, PStmt{K: "label", Label: "entry"}, br)
		p.Stmts = append(p.Stmts, fill(d)...)
		p.Stmts = append(p.Stmts, PStmt{K: "label", Label: "target"}, PStmt{K: "inst", X: mkInst("HLT", to)},
			PStmt{K: "bits", N: int64(from)}, PStmt{K: "jmp", Mn: "JMP", Label: "entry"}, PStmt{K: "label", Label: "zend"},
			PStmt{K: "data", W: 2, Items: []DItem{{Kind: "label", Label: "zend", Text: "zend"}}})
	}
	ctx := fmt.Sprintf("%s|label|%s|%s", branchClass(mn), names[layout], distClass(d))
	return &ProgCase{P: p, Prop: "C04", Ctx: ctx, Cell_: fmt.Sprintf("%s %d->%d %s %s", mn, from, to, names[layout], distClass(d))}
}

// c04Abs: 32-bit code whose branch and target are far apart in the 4 GiB space
// (addresses wrap modulo 2^32, so every target is reachable with rel32), or
// which lives above 2^31.
func c04Abs(mn string, org int64, target int64, labelD int) *ProgCase {
	p := Prog{}
	p.Stmts = append(p.Stmts, PStmt{K: "org", N: org}, PStmt{K: "bits", N: 32}, PStmt{K: "inst", X: mkInst("NOP", 32)})
	tk := "numeric"
	if labelD >= 0 {
		// label target labelD bytes ahead, then a backward branch to it as well
		tk = "label"
		p.Stmts = append(p.Stmts, PStmt{K: "jmp", Mn: mn, Label: "target"})
		p.Stmts = append(p.Stmts, filler(2, labelD)...)
		p.Stmts = append(p.Stmts, PStmt{K: "label", Label: "target"}, PStmt{K: "inst", X: mkInst("HLT", 32)}, PStmt{K: "jmp", Mn: mn, Label: "target"},
			PStmt{K: "label", Label: "zend"}, PStmt{K: "data", W: 4, Items: []DItem{{Kind: "label", Label: "zend", Text: "zend"}}})
	} else {
		p.Stmts = append(p.Stmts, PStmt{K: "jmp", Mn: mn, Num: true, N: target, Text: fmt.Sprintf("0x%x", target)},
			PStmt{K: "label", Label: "zend"}, PStmt{K: "inst", X: mkInst("HLT", 32)}, PStmt{K: "jmp", Mn: "JMP", Label: "zend"})
	}
	hi := "low-org"
	if org >= 0x80000000 {
		hi = "high-org"
	}
	ctx := fmt.Sprintf("%s|%s|abs-%s|target=%s", branchClass(mn), tk, hi, immClass(target))
	return &ProgCase{P: p, Prop: "C04", Ctx: ctx, Cell_: fmt.Sprintf("%s m32 %s abs org=%#x target=%#x d=%d", mn, tk, org, target, labelD)}
}

// FarCase: JMP seg:off
type FarCase struct {
	Mode  int    `json:"mode"`
	Sel   int64  `json:"sel"`
	Off   int64  `json:"off"`
	Dword bool   `json:"dword"`
	Cell_ string `json:"cell"`
}

func (c *FarCase) Kind() string { return "farjmp" }
func (c *FarCase) src() string {
	s := ""
	if c.Mode == 32 {
		s = "[BITS 32]\n"
	}
	kw := ""
	if c.Dword {
		kw = "DWORD "
	}
	return s + fmt.Sprintf("\tJMP %s%d:0x%x\n\tNOP\n", kw, c.Sel, c.Off)
}
func (c *FarCase) Reqs() []Req { return []Req{{Src: []byte(c.src())}} }
func (c *FarCase) Judge(rs []Res, env *Env) Outcome {
	o := Outcome{Cell: c.Cell_}
	r := rs[0]
	out := r.Out
	fail := func(kind, detail string) Outcome {
		o.Status = Violated
		o.Viols = []Violation{{Sig: fmt.Sprintf("C04|far-%s|m%d|%s", kind, c.Mode, c.Cell_), Detail: fmt.Sprintf("%s -> %s: %s", oneLine(c.src(), 80), hex.EncodeToString(out), detail)}}
		return o
	}
	// the form exists when the selector is a 16-bit value and the offset fits the offset field (32 bits with DWORD or in 32-bit mode)
	offBits := 16
	if c.Dword || c.Mode == 32 {
		offBits = 32
	}
	formExists := c.Sel >= 0 && c.Sel <= 0xffff && c.Off >= 0 && uint64(c.Off) <= widthMask(offBits)
	if ok, why := env.accepted(&r); !ok {
		if formExists {
			return fail("refused", "a far jump whose selector and offset fit their fields is refused ("+why+")")
		}
		o.Status, o.Note = Rejected, why
		return o
	}
	if d := env.Diags(&r); len(d) > 0 {
		if formExists {
			return fail("refused", "a far jump whose selector and offset fit their fields is refused (diagnostic: "+parseLog(d[0]).Msg+")")
		}
		o.Status, o.Note = Rejected, "diagnostic: "+parseLog(d[0]).Msg
		return o
	}
	if len(out) == 0 || !bytes.HasSuffix(out, []byte{0x90}) {
		return fail("shape", "the far jump must be followed by the NOP (90) that comes after it")
	}
	in := Decode(out, c.Mode)
	o.Decodes = []DecQ{{Bytes: clip(out, 15), Mode: c.Mode}}
	if in.Bad != "" || in.Op != "JMPF" || len(in.Ops) != 1 || in.Ops[0].Kind != KFar {
		return fail("wrong-instruction", fmt.Sprintf("decoded %s", in))
	}
	if in.Len != len(out)-1 {
		return fail("length", fmt.Sprintf("far jump decodes to %d bytes, %d emitted before the NOP", in.Len, len(out)-1))
	}
	f := in.Ops[0]
	if f.Sel != c.Sel&0xffff {
		return fail("selector", fmt.Sprintf("selector %#x encoded, %#x written", f.Sel, c.Sel))
	}
	if uint64(f.Off) != uint64(c.Off)&widthMask(f.OffW) || uint64(c.Off) > widthMask(f.OffW) {
		return fail("offset", fmt.Sprintf("offset %#x encoded in %d bits, %#x written", f.Off, f.OffW, c.Off))
	}
	o.Status = Held
	return o
}

func init() { registerKind("farjmp", func() Case { return &FarCase{} }) }

func init() {
	props["C04"] = propCheck{run: func(env *Env, rep *Report) {
		env.InitBaseline()
		r := NewRand(env.Seed, "C04")
		var cases []Case
		mns := append(append([]string{}, jumpMnemonics...), "CALL")
		var dists []int
		for d := -140; d <= 140; d++ {
			dists = append(dists, d)
		}
		for _, b := range []int{32760, 32765, 32766, 32767, 32768, 32769, 32770, 32775} {
			dists = append(dists, b, -b)
		}
		orgs := []int64{-1, 0x100, 0x7c00, 0xfff0}
		k := 0
		add := func(c *ProgCase) {
			if c != nil {
				cases = append(cases, c)
			}
		}
		for _, mode := range []int{16, 32} {
			for _, mn := range mns {
				for _, d := range dists {
					k++
					if env.Tier == "quick" {
						// every mnemonic with the distances around each boundary, others sampled
						near := func(x, c int) bool { return x >= c-3 && x <= c+3 }
						ad := d
						if ad < 0 {
							ad = -ad
						}
						if !(near(d, 127) || near(d, -128) || near(d, 0) || near(ad, 32767) || near(d, -131) || near(d, 130)) && r.Intn(12) != 0 {
							continue
						}
					}
					org := orgs[k%len(orgs)]
					fill := k % 3
					if d > 1000 || d < -1000 {
						fill = 0
					}
					add(c04Case(mn, mode, org, d, fill, k%2 == 0, false))
					if env.Tier == "thorough" || k%5 == 0 {
						add(c04Case(mn, mode, orgs[(k+1)%len(orgs)], d, (k+1)%3*boolInt(d < 1000 && d > -1000), k%2 == 1, false))
					}
					if (mn == "JMP" || mn == "CALL" || mn == "JE" || mn == "JNZ" || mn == "JC") && (env.Tier == "thorough" || k%3 == 0) {
						add(c04Case(mn, mode, orgs[(k+2)%len(orgs)], d, 0, k%2 == 0, true))
						if mode == 32 || env.Tier == "thorough" {
							// the same target written relative to `$` and through a constant EQU (16-bit numeric targets are finding F402 whatever the spelling)
							c04Spelling = 1
							add(c04Case(mn, mode, orgs[(k+2)%len(orgs)], d, 0, k%2 == 0, true))
							c04Spelling = 2
							add(c04Case(mn, mode, orgs[(k+1)%len(orgs)], d, 0, k%2 == 1, true))
							c04Spelling = 0
						}
					}
				}
			}
			for _, mn := range mns {
				for layout := 0; layout < 4; layout++ {
					for _, d := range []int{0, 5, 126, 131} {
						k++
						if env.Tier == "quick" && k%2 != 0 {
							continue
						}
						if layout == 3 && d > 100 {
							d -= 40 // the JMP back to `entry` stays within rel8 (16-bit relaxation is finding F401, not this family's subject)
						}
						add(c04Switch(mn, layout, d, orgs[k%len(orgs)], mode))
					}
				}
			}
			if mode == 32 {
				for _, mn := range mns {
					k++
					if env.Tier == "quick" && k%4 != 0 && mn != "JMP" && mn != "CALL" && mn != "JE" {
						continue
					}
					for _, org := range []int64{0x280000, 0x7ffffff0, 0x80000000, 0xc0100000, 0xfffff000} {
						for _, tgt := range []int64{0x10, 0x7ffffff0, 0x80000000, 0xc0100010, 0xfffffff0} {
							add(c04Abs(mn, org, tgt, -1))
						}
						add(c04Abs(mn, org, 0, 5))
						add(c04Abs(mn, org, 0, 200))
					}
				}
			}
			for _, sel := range []int64{0, 1, 8, 0x10, 0x7fff, 0x8000, 0xffff} {
				for _, off := range []int64{0, 1, 8, 0x10, 0x1b, 0x7fff, 0x8000, 0xffff, 0x10000, 0x7fffffff, 0xffffffff} {
					for _, dw := range []bool{false, true} {
						cases = append(cases, &FarCase{Mode: mode, Sel: sel, Off: off, Dword: dw,
							Cell_: fmt.Sprintf("far dword=%v sel=%s off=%s", dw, immClass(sel), immClass(off))})
					}
				}
			}
		}
		rep.Rule = "one program per (31 jump mnemonics + CALL) x displacement d in [-140,140] and +-{32760..32775} measured from the end of the shortest form x forward/backward x filler (RESB, NOPs, DB) x label/numeric target (numeric ones also written `$+k` / `$-k` and through a constant EQU) x ORG in {none,0x100,0x7c00,0xfff0} x BITS, with and without labels after the branch; every mnemonic right after / long before a [BITS] directive that changes the mode (4 layouts x 4 distances x both directions of the switch); 32-bit branches between far-apart addresses of the 4 GiB space and in code placed above 2^31 (5 origins x 5 numeric targets, label targets 5 and 200 bytes ahead and behind); a refusal of a reachable branch or of an existing far-jump form is a violation; far JMP seg:off (with/without DWORD) for boundary selector/offset values; " +
			"oracle: the walker finds the branch, the reference decoder gives its condition and displacement, address(next)+disp must equal the true address of the target statement, and a label after the branch must have its true value (size agreement); " +
			"thorough enumerates the whole product, quick takes every mnemonic at every boundary distance plus a seeded sample; non-trivial = accepted and judged; distinct = (mnemonic, mode, target kind, direction, distance class, labels-after) cells"
		if env.Tier == "thorough" {
			rep.Exhaust = true
		}
		outs := RunCases(env, cases)
		xcheckProg(env, rep, outs)
		for i := 0; i < len(cases) && len(rep.Samples) < 5; i += len(cases)/5 + 1 {
			if pc, ok := cases[i].(*ProgCase); ok {
				rep.AddSample(map[string]any{"program": pc.P.Source(), "ctx": pc.Ctx, "verdict": outs[i].Status.String()})
			}
		}
		rep.Add(cases, outs)
	}}
}

func boolInt(b bool) int {
	if b {
		return 1
	}
	return 0
}
