package main

import (
	"fmt"
	"sort"
	"strings"
)

// Instruction-instance model: the INTENDED meaning of a source statement.
// Expected meanings never come from gosk and never from expected bytes.

type XKind int

const (
	XReg XKind = iota
	XImm
	XMem
)

type XOp struct {
	Kind  XKind  `json:"k"`
	Class string `json:"c,omitempty"` // register class
	Reg   int    `json:"r,omitempty"`
	Val   int64  `json:"v,omitempty"` // immediate: the written value
	// memory
	ASize int    `json:"as,omitempty"` // address size implied by registers; 0 = absolute (mode default)
	Size  int    `json:"sz,omitempty"` // access size in bits (from keyword or the other operand); 0 unknown
	KW    string `json:"kw,omitempty"` // size keyword written in the source ("" = none)
	Coef  [8]int `json:"co,omitempty"`
	Disp  int64  `json:"d,omitempty"`
	Text  string `json:"t"` // how the operand is spelled in the source
}

type XInst struct {
	Mn   string `json:"mn"`
	Mode int    `json:"mode"`
	Ops  []XOp  `json:"ops"`
	Form string `json:"form"` // operand form, e.g. "r16,imm"
	Cell string `json:"cell"`
	Pre  string `json:"pre,omitempty"` // lines in front of the statement that emit nothing (EQU definitions the operands mention)
}

func (x *XInst) Stmt() string {
	if len(x.Ops) == 0 {
		return x.Mn
	}
	var t []string
	for _, o := range x.Ops {
		t = append(t, o.Text)
	}
	return x.Mn + " " + strings.Join(t, ",")
}

func (x *XInst) Source() string {
	if x.Mode == 32 {
		return "[BITS 32]\n" + x.Pre + x.Stmt() + "\n"
	}
	return x.Pre + x.Stmt() + "\n"
}

// ---- operand constructors ---------------------------------------------------

func xreg(class string, n int) XOp {
	return XOp{Kind: XReg, Class: class, Reg: n, Text: regNames[class][n]}
}

func xgpr(w, n int) XOp {
	switch w {
	case 8:
		return xreg(R8, n)
	case 16:
		return xreg(R16, n)
	}
	return xreg(R32, n)
}

func regWidth(class string) int {
	switch class {
	case R8:
		return 8
	case R16, SREG:
		return 16
	}
	return 32
}

// spellings of an integer: 0 decimal, 1 hex (non-negative only), 2 hex upper-case X
func spellInt(v int64, style int) string {
	if v < 0 || style == 0 {
		return fmt.Sprintf("%d", v)
	}
	if style == 2 {
		return fmt.Sprintf("0x%X", v)
	}
	return fmt.Sprintf("0x%x", v)
}

func ximm(v int64, style int) XOp { return XOp{Kind: XImm, Val: v, Text: spellInt(v, style)} }

// memory shape: registers with coefficients + displacement.  hasDisp says
// whether a displacement is written at all (a written 0 is a separate case).
type MemShape struct {
	ASize   int // 16, 32, or 0 for absolute
	Base    int // -1 none
	Index   int // -1 none
	Scale   int
	Disp    int64
	HasDisp bool
}

func (m MemShape) coef() [8]int {
	var c [8]int
	if m.Base >= 0 {
		c[m.Base]++
	}
	if m.Index >= 0 {
		c[m.Index] += m.Scale
	}
	return c
}

// render styles: 0 canonical "base+index*scale+disp"; 1 constant first;
// 2 constant split in two; 3 spaces inside brackets and around operators
func (m MemShape) render(style, numStyle int) string {
	names := regNames[R32]
	if m.ASize == 16 {
		names = regNames[R16]
	}
	var terms []string
	if m.Base >= 0 {
		terms = append(terms, names[m.Base])
	}
	if m.Index >= 0 {
		if m.Scale == 1 && m.Base < 0 {
			terms = append(terms, names[m.Index])
		} else if m.Scale == 1 {
			terms = append(terms, names[m.Index])
		} else {
			terms = append(terms, fmt.Sprintf("%s*%d", names[m.Index], m.Scale))
		}
	}
	if style == 4 && m.Base >= 0 && m.Index >= 0 && m.HasDisp && m.Disp != 0 {
		// constant between the two register terms: [EBX-4+ESI*2]
		d := spellInt(m.Disp, numStyle)
		if m.Disp > 0 {
			d = "+" + d
		}
		return "[" + terms[0] + d + "+" + terms[1] + "]"
	}
	plus := "+"
	minus := "-"
	if style == 3 {
		plus, minus = " + ", " - "
	}
	s := strings.Join(terms, plus)
	if len(terms) == 0 {
		s = spellInt(m.Disp, numStyle)
		if style == 3 {
			return "[ " + s + " ]"
		}
		return "[" + s + "]"
	}
	if m.HasDisp {
		d := m.Disp
		switch {
		case style == 1 && d >= 0:
			s = spellInt(d, numStyle) + plus + s
		case style == 2 && d >= 2:
			a := d / 2
			s = s + plus + spellInt(a, numStyle) + plus + spellInt(d-a, numStyle)
		case d < 0:
			s = s + minus + spellInt(-d, numStyle)
		default:
			s = s + plus + spellInt(d, numStyle)
		}
	}
	if style == 3 {
		return "[ " + s + " ]"
	}
	return "[" + s + "]"
}

func xmem(m MemShape, size int, kw bool, style, numStyle int) XOp {
	o := XOp{Kind: XMem, ASize: m.ASize, Size: size, Coef: m.coef(), Disp: m.Disp}
	t := m.render(style, numStyle)
	if kw {
		o.KW = map[int]string{8: "BYTE", 16: "WORD", 32: "DWORD"}[size]
		t = o.KW + " " + t
	}
	o.Text = t
	return o
}

// ---- classes (cells) ----------------------------------------------------------

func immClass(v int64) string {
	switch {
	case v >= -128 && v <= 127:
		return "s8"
	case v >= 128 && v <= 255:
		return "u8"
	case v >= 256 && v <= 0x7fff:
		return "p16"
	case v < -128 && v >= -0x8000:
		return "n16"
	case v >= 0x8000 && v <= 0xffff:
		return "u16"
	case v >= 0x10000 && v <= 0x7fffffff:
		return "p32"
	case v < -0x8000 && v >= -0x80000000:
		return "n32"
	case v >= 0x80000000 && v <= 0xffffffff:
		return "u32"
	}
	return "big"
}

func regClassOf(o XOp) string {
	switch o.Class {
	case R8, R16, R32:
		if o.Reg == 0 {
			return "acc"
		}
		return "oth"
	case SREG:
		return regNames[SREG][o.Reg]
	}
	return "x"
}

func dispClass(m MemShape) string {
	switch {
	case !m.HasDisp:
		return "none"
	case m.Disp == 0:
		return "zero"
	case m.Disp >= -128 && m.Disp <= 127:
		return "s8"
	case m.ASize == 16 && (m.Disp < -0x8000 || m.Disp > 0xffff):
		return "over"
	case m.Disp >= 0x8000 && m.Disp <= 0xffff && m.ASize == 16:
		return "u16"
	}
	return "wide"
}

func memClass(m MemShape) string {
	if m.ASize == 0 {
		if m.Disp < 0 {
			return "abs.neg." + immClass(m.Disp)
		}
		return "abs." + immClass(m.Disp)
	}
	var s string
	if m.ASize == 16 {
		switch {
		case m.Base >= 0 && m.Index >= 0:
			s = "pair"
		case m.Base == 5 || m.Index == 5:
			s = "bp"
		default:
			s = "single"
		}
	} else {
		switch {
		case m.Base >= 0 && m.Index >= 0 && m.Base == 5:
			s = "ebp+idx"
		case m.Base >= 0 && m.Index >= 0 && m.Base == m.Index:
			s = "same2"
		case m.Base >= 0 && m.Index >= 0 && m.Base == 4:
			s = "esp+idx"
		case m.Base >= 0 && m.Index >= 0:
			s = "base+idx"
		case m.Base == 5:
			s = "ebp"
		case m.Base == 4:
			s = "esp"
		case m.Base >= 0:
			s = "base"
		default:
			s = "idx"
		}
		if m.Index >= 0 && m.Scale > 1 {
			s += fmt.Sprintf("*%d", m.Scale)
		}
		if m.Index == 4 {
			s += ".espidx"
		}
	}
	return fmt.Sprintf("a%d.%s.d=%s", m.ASize, s, dispClass(m))
}

// ---- expectation ------------------------------------------------------------------

// canonical operation names as the decoder reports them
var mnCanon = map[string]string{
	"SAL": "SHL", "RETN": "RET", "JZ": "JE", "JNZ": "JNE", "JC": "JB", "JNAE": "JB", "JNC": "JAE", "JNB": "JAE", "JNA": "JBE",
	"JNBE": "JA", "JPE": "JP", "JPO": "JNP", "JNGE": "JL", "JNL": "JGE", "JNG": "JLE", "JNLE": "JG",
}

func canonOp(mn string) string {
	if c, ok := mnCanon[mn]; ok {
		return c
	}
	return mn
}

// no-operand mnemonics: canonical decoder name and operand size (0 = mode
// default / not applicable, 16 / 32 = fixed)
type noopSpec struct {
	Op    string
	Size  int  // required OpSize; 0 = must be the mode default (no 66h) where the decoder reports a size
	Sized bool // the decoder reports an OpSize for this operation
	Pfx   string
}

var noopTable = map[string]noopSpec{
	"AAA": {Op: "AAA"}, "AAS": {Op: "AAS"}, "DAA": {Op: "DAA"}, "DAS": {Op: "DAS"},
	"CBW": {Op: "CBW", Size: 16, Sized: true}, "CWDE": {Op: "CBW", Size: 32, Sized: true},
	"CWD": {Op: "CWD", Size: 16, Sized: true}, "CDQ": {Op: "CWD", Size: 32, Sized: true},
	"CLC": {Op: "CLC"}, "CLD": {Op: "CLD"}, "CLI": {Op: "CLI"}, "CLTS": {Op: "CLTS"}, "CMC": {Op: "CMC"},
	"STC": {Op: "STC"}, "STD": {Op: "STD"}, "STI": {Op: "STI"},
	"CPUID": {Op: "CPUID"}, "HLT": {Op: "HLT"}, "NOP": {Op: "NOP"}, "INTO": {Op: "INTO"}, "INT3": {Op: "INT3"},
	"INVD": {Op: "INVD"}, "WBINVD": {Op: "WBINVD"}, "LAHF": {Op: "LAHF"}, "SAHF": {Op: "SAHF"},
	"IRET": {Op: "IRET", Sized: true}, "IRETW": {Op: "IRET", Size: 16, Sized: true}, "IRETD": {Op: "IRET", Size: 32, Sized: true},
	"LEAVE": {Op: "LEAVE", Sized: true},
	"PUSHA": {Op: "PUSHA", Sized: true}, "PUSHAW": {Op: "PUSHA", Size: 16, Sized: true}, "PUSHAD": {Op: "PUSHA", Size: 32, Sized: true},
	"POPA": {Op: "POPA", Sized: true}, "POPAW": {Op: "POPA", Size: 16, Sized: true}, "POPAD": {Op: "POPA", Size: 32, Sized: true},
	"PUSHF": {Op: "PUSHF", Sized: true}, "PUSHFW": {Op: "PUSHF", Size: 16, Sized: true}, "PUSHFD": {Op: "PUSHF", Size: 32, Sized: true},
	"POPF": {Op: "POPF", Sized: true}, "POPFW": {Op: "POPF", Size: 16, Sized: true}, "POPFD": {Op: "POPF", Size: 32, Sized: true},
	"RET": {Op: "RET", Sized: true}, "RETN": {Op: "RET", Sized: true}, "RETF": {Op: "RETF", Sized: true},
	"RDMSR": {Op: "RDMSR"}, "WRMSR": {Op: "WRMSR"}, "RDPMC": {Op: "RDPMC"}, "RDTSC": {Op: "RDTSC"}, "RSM": {Op: "RSM"},
	"UD2": {Op: "UD2"}, "WAIT": {Op: "WAIT"}, "XLATB": {Op: "XLAT"}, "SYSENTER": {Op: "SYSENTER"}, "SYSEXIT": {Op: "SYSEXIT"},
	"EMMS": {Op: "EMMS"}, "PAUSE": {Op: "PAUSE"}, "ICEBP": {Op: "ICEBP"}, "SETALC": {Op: "SALC"},
	"LFENCE": {Op: "LFENCE"}, "MFENCE": {Op: "MFENCE"}, "SFENCE": {Op: "SFENCE"},
	"MONITOR": {Op: "MONITOR"}, "MWAIT": {Op: "MWAIT"}, "RDTSCP": {Op: "RDTSCP"}, "XGETBV": {Op: "XGETBV"}, "XSETBV": {Op: "XSETBV"},
	"VMCALL": {Op: "VMCALL"}, "VMLAUNCH": {Op: "VMLAUNCH"}, "VMRESUME": {Op: "VMRESUME"}, "VMXOFF": {Op: "VMXOFF"},
	"GETSEC": {Op: "GETSEC"},
	"MOVSB":  {Op: "MOVS", Size: 8, Sized: true}, "MOVSW": {Op: "MOVS", Size: 16, Sized: true}, "MOVSD": {Op: "MOVS", Size: 32, Sized: true},
	"CMPSB": {Op: "CMPS", Size: 8, Sized: true}, "CMPSW": {Op: "CMPS", Size: 16, Sized: true}, "CMPSD": {Op: "CMPS", Size: 32, Sized: true},
	"STOSB": {Op: "STOS", Size: 8, Sized: true}, "STOSW": {Op: "STOS", Size: 16, Sized: true}, "STOSD": {Op: "STOS", Size: 32, Sized: true},
	"LODSB": {Op: "LODS", Size: 8, Sized: true}, "LODSW": {Op: "LODS", Size: 16, Sized: true}, "LODSD": {Op: "LODS", Size: 32, Sized: true},
	"SCASB": {Op: "SCAS", Size: 8, Sized: true}, "SCASW": {Op: "SCAS", Size: 16, Sized: true}, "SCASD": {Op: "SCAS", Size: 32, Sized: true},
	"INSB": {Op: "INS", Size: 8, Sized: true}, "INSW": {Op: "INS", Size: 16, Sized: true}, "INSD": {Op: "INS", Size: 32, Sized: true},
	"OUTSB": {Op: "OUTS", Size: 8, Sized: true}, "OUTSW": {Op: "OUTS", Size: 16, Sized: true}, "OUTSD": {Op: "OUTS", Size: 32, Sized: true},
	// x87 without operands
	"F2XM1": {Op: "F2XM1"}, "FABS": {Op: "FABS"}, "FCHS": {Op: "FCHS"}, "FCOS": {Op: "FCOS"}, "FDECSTP": {Op: "FDECSTP"},
	"FINCSTP": {Op: "FINCSTP"}, "FLD1": {Op: "FLD1"}, "FLDL2E": {Op: "FLDL2E"}, "FLDL2T": {Op: "FLDL2T"}, "FLDLG2": {Op: "FLDLG2"},
	"FLDLN2": {Op: "FLDLN2"}, "FLDPI": {Op: "FLDPI"}, "FLDZ": {Op: "FLDZ"}, "FNOP": {Op: "FNOP"}, "FPATAN": {Op: "FPATAN"},
	"FPREM": {Op: "FPREM"}, "FPREM1": {Op: "FPREM1"}, "FPTAN": {Op: "FPTAN"}, "FRNDINT": {Op: "FRNDINT"}, "FSCALE": {Op: "FSCALE"},
	"FSIN": {Op: "FSIN"}, "FSINCOS": {Op: "FSINCOS"}, "FSQRT": {Op: "FSQRT"}, "FTST": {Op: "FTST"}, "FXAM": {Op: "FXAM"},
	"FXTRACT": {Op: "FXTRACT"}, "FYL2X": {Op: "FYL2X"}, "FYL2XP1": {Op: "FYL2XP1"}, "FCOMPP": {Op: "FCOMPP"}, "FUCOMPP": {Op: "FUCOMPP"},
	"FNCLEX": {Op: "FNCLEX"}, "FNINIT": {Op: "FNINIT"}, "FNENI": {Op: "FNENI"}, "FNDISI": {Op: "FNDISI"}, "FNSETPM": {Op: "FNSETPM"},
	"FCLEX": {Op: "FNCLEX", Pfx: "WAIT"}, "FINIT": {Op: "FNINIT", Pfx: "WAIT"}, "FENI": {Op: "FNENI", Pfx: "WAIT"},
	"FDISI": {Op: "FNDISI", Pfx: "WAIT"}, "FSETPM": {Op: "FNSETPM", Pfx: "WAIT"},
	// x87 with implicit ST(1)
	"FADDP": {Op: "FADDP", Pfx: "st1"}, "FMULP": {Op: "FMULP", Pfx: "st1"}, "FSUBP": {Op: "FSUBP", Pfx: "st1"}, "FSUBRP": {Op: "FSUBRP", Pfx: "st1"},
	"FDIVP": {Op: "FDIVP", Pfx: "st1"}, "FDIVRP": {Op: "FDIVRP", Pfx: "st1"}, "FCOM": {Op: "FCOM", Pfx: "st1"}, "FCOMP": {Op: "FCOMP", Pfx: "st1"},
	"FUCOM": {Op: "FUCOM", Pfx: "st1"}, "FUCOMP": {Op: "FUCOMP", Pfx: "st1"}, "FXCH": {Op: "FXCH", Pfx: "st1"},
}

// Mismatch describes how decoded bytes differ from the intent.
type Mismatch struct {
	Kind   string
	Detail string
}

func mm(kind, f string, a ...any) *Mismatch {
	return &Mismatch{Kind: kind, Detail: fmt.Sprintf(f, a...)}
}

// immWidthFor: number of low bits of an immediate operand that carry meaning.
func immWidthFor(op string, idx int, opsize int) int {
	switch op {
	case "SHL", "SHR", "SAR", "SAL", "ROL", "ROR", "RCL", "RCR", "INT", "IN", "OUT", "AAM", "AAD", "BT", "BTS", "BTR", "BTC", "SHLD", "SHRD":
		return 8
	case "RET", "RETF":
		return 16
	case "ENTER":
		if idx == 0 {
			return 16
		}
		return 8
	}
	if opsize == 0 {
		return 32
	}
	return opsize
}

// matchMem compares an intended memory operand with a decoded one (C02).
func matchMem(x XOp, g Operand, mode int) *Mismatch {
	if g.Kind != KMem {
		return mm("operand-kind", "expected memory operand %s, decoded %s", x.Text, g)
	}
	asz := x.ASize
	if asz == 0 {
		asz = mode
		// an absolute address may be encoded at either address size as long as
		// the address itself is unchanged
		if g.ASize != mode {
			// a negative number designates the address it wraps to at the mode's own address width ([-2] is 0xFFFE in 16-bit code)
			want := uint64(x.Disp) & widthMask(32)
			if x.Disp < 0 {
				want = uint64(x.Disp) & widthMask(mode)
			}
			if g.Coef != x.Coef || uint64(g.Disp)&widthMask(g.ASize) != want {
				return mm("ea-asize", "absolute address %s encoded as %s", x.Text, g)
			}
			if g.Seg != -1 {
				return mm("ea-seg", "unexpected segment override in %s", g)
			}
			return nil
		}
	}
	if g.ASize != asz {
		return mm("ea-asize", "address size: source %s implies %d-bit addressing, decoded %s", x.Text, asz, g)
	}
	if g.Coef != x.Coef {
		return mm("ea-regs", "address registers: source %s, decoded %s", x.Text, g)
	}
	if uint64(g.Disp)&widthMask(asz) != uint64(x.Disp)&widthMask(asz) {
		return mm("ea-disp", "displacement: source %s (%d), decoded %s", x.Text, x.Disp, g)
	}
	if g.Seg != -1 {
		return mm("ea-seg", "unexpected segment override in %s", g)
	}
	return nil
}

// Match compares the decoded instruction with the intended one (C01).  total
// is the number of bytes gosk emitted for the statement.
func (x *XInst) Match(in Inst, total int) *Mismatch {
	if in.Bad != "" {
		return mm("undecodable", "bytes do not decode: %s", in.Bad)
	}
	if in.Lock || in.Rep || in.Repne {
		return mm("stray-prefix", "unexpected LOCK/REP prefix: %s", in)
	}
	wantOp := canonOp(x.Mn)
	ops := x.Ops
	expect := func(op string) *Mismatch {
		got := in.Op
		if got == "SAL" {
			got = "SHL"
		}
		if got != op {
			return mm("wrong-instruction", "expected %s, decoded %s", x.Stmt(), in)
		}
		return nil
	}
	// ---- no-operand mnemonics
	if len(ops) == 0 {
		spec, ok := noopTable[x.Mn]
		if !ok {
			return mm("no-model", "no reference meaning for %s", x.Mn)
		}
		if spec.Pfx == "WAIT" {
			// WAIT + Fn...: two instructions
			if in.Op != "WAIT" {
				return mm("wrong-instruction", "expected WAIT prefix form of %s, decoded %s", x.Mn, in)
			}
			return nil // the second instruction is judged by the caller (multi-instruction statement)
		}
		if m := expect(spec.Op); m != nil {
			return m
		}
		if spec.Pfx == "st1" {
			if len(in.Ops) != 1 || in.Ops[0].Kind != KReg || in.Ops[0].Class != STR || in.Ops[0].Reg != 1 {
				return mm("reg-role", "expected implicit ST1, decoded %s", in)
			}
			return nil
		}
		if len(in.Ops) != 0 {
			return mm("wrong-instruction", "expected %s without operands, decoded %s", x.Mn, in)
		}
		if spec.Sized {
			want := spec.Size
			if want == 0 {
				want = x.Mode
			}
			if in.OpSize != want {
				return mm("opsize", "expected %s with %d-bit operand size, decoded %s", x.Mn, want, in)
			}
		} else if in.P66 {
			return mm("extra-prefix", "unexpected operand-size prefix on %s: %s", x.Mn, in)
		}
		if in.Seg != -1 || in.P67 {
			return mm("extra-prefix", "unexpected prefix on %s: %s", x.Mn, in)
		}
		return nil
	}
	// ---- IMUL r,imm  ==  IMUL r,r,imm
	if wantOp == "IMUL" && len(ops) == 2 && ops[1].Kind == XImm {
		ops = []XOp{ops[0], ops[0], ops[1]}
	}
	if m := expect(wantOp); m != nil {
		return m
	}
	if len(in.Ops) != len(ops) {
		return mm("wrong-instruction", "operand count: expected %s, decoded %s", x.Stmt(), in)
	}
	// operand size implied by the source
	wantSize := 0
	for _, o := range x.Ops {
		if o.Kind == XReg && (o.Class == R8 || o.Class == R16 || o.Class == R32) {
			w := regWidth(o.Class)
			if wantSize == 0 || wantOp == "MOVZX" || wantOp == "MOVSX" {
				if wantSize == 0 {
					wantSize = w
				}
			}
		}
	}
	if wantSize == 0 {
		for _, o := range x.Ops {
			if o.Kind == XMem && o.Size != 0 {
				wantSize = o.Size
			}
		}
	}
	switch wantOp {
	case "IN", "OUT":
		// size = accumulator operand
		for _, o := range x.Ops {
			if o.Kind == XReg && o.Reg == 0 && o.Class != R16 {
				wantSize = regWidth(o.Class)
			}
		}
		if x.Ops[0].Kind == XReg && x.Ops[0].Reg == 0 && wantOp == "IN" {
			wantSize = regWidth(x.Ops[0].Class)
		}
		if wantOp == "OUT" && x.Ops[1].Kind == XReg {
			wantSize = regWidth(x.Ops[1].Class)
		}
	case "PUSH", "POP":
		if x.Ops[0].Kind == XReg && x.Ops[0].Class == SREG || x.Ops[0].Kind == XImm && wantSize == 0 {
			wantSize = x.Mode
		}
	case "INT":
		wantSize = 0
	case "RET", "RETF":
		wantSize = x.Mode
	case "LGDT", "LIDT", "SGDT", "SIDT":
		wantSize = x.Mode
	}
	sregMove := wantOp == "MOV" && (x.Ops[0].Kind == XReg && x.Ops[0].Class == SREG || len(x.Ops) > 1 && x.Ops[1].Kind == XReg && x.Ops[1].Class == SREG)
	crMove := wantOp == "MOV" && (x.Ops[0].Class == CREG || x.Ops[0].Class == DREG || x.Ops[0].Class == TREG ||
		len(x.Ops) > 1 && (x.Ops[1].Class == CREG || x.Ops[1].Class == DREG || x.Ops[1].Class == TREG))
	if wantSize != 0 && !sregMove && !crMove && in.OpSize != wantSize {
		return mm("opsize", "operand size: source %s means %d-bit, decoded %s", x.Stmt(), wantSize, in)
	}
	for i, o := range ops {
		g := in.Ops[i]
		switch o.Kind {
		case XReg:
			if g.Kind != KReg {
				return mm("operand-kind", "operand %d: expected register %s, decoded %s", i+1, o.Text, in)
			}
			if sregMove && o.Class != SREG {
				// MOV Sreg,r16 / MOV r16,Sreg: the ISA ignores the operand size
				if g.Reg != o.Reg || (g.Class != R16 && g.Class != R32) {
					return mm("reg-role", "operand %d: expected %s, decoded %s", i+1, o.Text, in)
				}
				if o.Class == R32 && g.Class != R32 && x.Ops[0].Class != SREG {
					return mm("opsize", "operand %d: expected %s, decoded %s", i+1, o.Text, in)
				}
				continue
			}
			if g.Class != o.Class || g.Reg != o.Reg {
				return mm("reg-role", "operand %d: expected %s, decoded %s", i+1, o.Text, in)
			}
		case XImm:
			if g.Kind != KImm {
				return mm("operand-kind", "operand %d: expected immediate %s, decoded %s", i+1, o.Text, in)
			}
			w := immWidthFor(wantOp, i, wantSize)
			if uint64(g.Imm)&widthMask(w) != uint64(o.Val)&widthMask(w) {
				return mm("imm-value", "operand %d: expected immediate %s (mod 2^%d = %#x), decoded %s", i+1, o.Text, w, uint64(o.Val)&widthMask(w), in)
			}
		case XMem:
			if m := matchMem(o, g, x.Mode); m != nil {
				return m
			}
			if o.Size != 0 && g.Size != 0 && g.Size != o.Size {
				return mm("opsize", "operand %d: memory access size: source %s means %d-bit, decoded %s", i+1, o.Text, o.Size, in)
			}
		}
	}
	if in.Seg != -1 {
		return mm("stray-prefix", "unexpected segment prefix: %s", in)
	}
	if in.Len != total {
		return nil // caller reports extra/missing bytes
	}
	return nil
}

// ---- minimal encoding length (C18) ---------------------------------------------

// memEncLen: bytes of ModRM + SIB + displacement for the shortest encoding of
// a memory operand; addrPrefix says whether a 67h is needed in this mode.
func memEncLen(o XOp, mode int) (n int, addrPrefix bool) {
	asz := o.ASize
	if asz == 0 {
		asz = mode
		if mode == 16 && (o.Disp > 0xffff || o.Disp < -0x8000) {
			asz = 32
		}
	}
	addrPrefix = asz != mode
	nz := 0
	regs := []int{}
	for i, c := range o.Coef {
		if c != 0 {
			nz++
			regs = append(regs, i)
		}
	}
	d := o.Disp
	if asz == 16 {
		d = int64(int16(d))
		switch {
		case nz == 0:
			return 1 + 2, addrPrefix
		case d == 0 && !(nz == 1 && regs[0] == 5):
			return 1, addrPrefix
		case d >= -128 && d <= 127:
			return 2, addrPrefix
		}
		return 3, addrPrefix
	}
	d = int64(int32(d))
	if nz == 0 {
		return 1 + 4, addrPrefix
	}
	// choose base / index
	base, index, scale := -1, -1, 1
	switch {
	case nz == 1 && o.Coef[regs[0]] == 1:
		base = regs[0]
	case nz == 1 && o.Coef[regs[0]] == 2:
		base, index = regs[0], regs[0] // [r+r] is shorter than [r*2+disp32]
	case nz == 1:
		index, scale = regs[0], o.Coef[regs[0]]
		if scale == 3 || scale == 5 || scale == 9 {
			base, scale = regs[0], scale-1
		}
	default:
		for _, r := range regs {
			if o.Coef[r] == 1 && base < 0 {
				base = r
			} else {
				index, scale = r, o.Coef[r]
			}
		}
		// two registers with coefficient 1: either can be the base; avoid EBP as base when no disp
		if o.Coef[regs[0]] == 1 && o.Coef[regs[1]] == 1 && d == 0 && base == 5 && regs[1] != 4 {
			base, index = regs[1], regs[0]
		}
	}
	_ = scale
	n = 1
	if index >= 0 || base == 4 {
		n++
	}
	switch {
	case base < 0:
		n += 4
	case d == 0 && base != 5:
	case d >= -128 && d <= 127:
		n++
	default:
		n += 4
	}
	return n, addrPrefix
}

func describeCells(cells map[string]int) []string {
	var ks []string
	for k := range cells {
		ks = append(ks, k)
	}
	sort.Strings(ks)
	return ks
}
