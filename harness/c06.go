package main

import (
	"fmt"
	"math/big"
	"strings"
)

// C06: constant expressions in every operand position that admits one.

func low(v int64, bits int) int64 { return int64(uint64(v) & widthMask(bits)) }

// exprStmts: statements that expose the value of e (whose value is v) in a
// seed-chosen position, rendered in two spacings.
func exprStmts(r *Rand, e *Expr, v int64, mode int) []PStmt {
	var out []PStmt
	s1, s2 := r.Intn(3), r.Intn(3)
	texts := []string{e.Render(s1), e.Render(s2)}
	pos := r.Intn(9)
	for _, t := range texts {
		switch pos {
		case 0, 1:
			w := Pick(r, []int{1, 2, 4, 4})
			out = append(out, PStmt{K: "data", W: w, Tag: fmt.Sprintf("d%d-lane", w), Items: []DItem{{Kind: "num", Num: v, Text: t}}})
		case 2:
			w := 16
			if mode == 32 {
				w = 32
			}
			x := mkInst("MOV", mode, xgpr(w, r.Intn(8)), XOp{Kind: XImm, Val: v, Text: t})
			out = append(out, PStmt{K: "inst", X: x, Tag: "mov-imm"})
		case 3:
			w := Pick(r, []int{8, 16, 32})
			vv := v
			x := mkInst(Pick(r, poolALU), mode, xgpr(w, 1+r.Intn(7)), XOp{Kind: XImm, Val: vv, Text: t})
			out = append(out, PStmt{K: "inst", X: x, Tag: "alu-imm"})
		case 4:
			// displacement
			var sh MemShape
			if mode == 16 {
				if v < -0x8000 || v > 0xffff {
					out = append(out, PStmt{K: "data", W: 4, Tag: "d4-lane", Items: []DItem{{Kind: "num", Num: v, Text: t}}})
					continue
				}
				sh = MemShape{ASize: 16, Base: Pick(r, []int{3, 5, 6, 7}), Index: -1, Scale: 1, Disp: v, HasDisp: true}
			} else {
				if v < -0x80000000 || v > 0xffffffff {
					out = append(out, PStmt{K: "data", W: 4, Tag: "d4-lane", Items: []DItem{{Kind: "num", Num: v, Text: t}}})
					continue
				}
				sh = MemShape{ASize: 32, Base: Pick(r, []int{0, 1, 2, 3, 6, 7}), Index: -1, Scale: 1, Disp: v, HasDisp: true}
			}
			w := 16
			if mode == 32 {
				w = 32
			}
			mo := xmem(sh, w, false, 0, 0)
			names := regNames[R32]
			if mode == 16 {
				names = regNames[R16]
			}
			if r.Chance(1, 3) {
				// the same displacement next to a base AND an index register (with and without a scale): the operand re-parser has a rule of its own for each form
				if mode == 16 {
					sh.Base, sh.Index = Pick(r, []int{3, 5}), Pick(r, []int{6, 7})
				} else {
					sh.Index = Pick(r, []int{1, 2, 6, 7})
					for sh.Index == sh.Base {
						sh.Index = Pick(r, []int{1, 2, 6, 7})
					}
					sh.Scale = Pick(r, []int{1, 1, 2, 4, 8})
				}
				mo = xmem(sh, w, false, 0, 0)
				idx := names[sh.Index]
				if sh.Scale > 1 {
					idx += fmt.Sprintf("*%d", sh.Scale)
				}
				mo.Text = "[" + names[sh.Base] + "+" + idx + "+" + t + "]"
			} else if r.Bool() {
				mo.Text = "[" + names[sh.Base] + "+" + t + "]"
			} else {
				mo.Text = "[" + t + "+" + names[sh.Base] + "]"
			}
			out = append(out, PStmt{K: "inst", X: mkInst("MOV", mode, xgpr(w, r.Intn(8)), mo), Tag: "disp"})
		case 5:
			if v >= 0 && v <= 3000 {
				out = append(out, PStmt{K: "resb", N: v, Text: t, Tag: "resb"})
			} else {
				out = append(out, PStmt{K: "data", W: 4, Tag: "d4-lane", Items: []DItem{{Kind: "num", Num: v, Text: t}}})
			}
		case 6:
			if v >= 1 && v <= 64 && v&(v-1) == 0 {
				out = append(out, PStmt{K: "data", W: 1, Items: []DItem{numItem(0x55, 1)}}, PStmt{K: "alignb", N: v, Text: t, Tag: "alignb"})
			} else {
				out = append(out, PStmt{K: "data", W: 2, Tag: "d2-lane", Items: []DItem{{Kind: "num", Num: v, Text: t}}})
			}
		default:
			// several lanes in one directive, mixed with plain numbers
			w := Pick(r, []int{1, 2, 4})
			out = append(out, PStmt{K: "data", W: w, Tag: fmt.Sprintf("d%d-list", w), Items: []DItem{numItem(int64(r.Intn(200)), 0), {Kind: "num", Num: v, Text: t}, numItem(int64(r.Intn(200)), 1)}})
		}
	}
	return out
}

// c06Program: a few EQU definitions (chained), then expressions over literals,
// EQU names and $ in several positions.  Names are reused after they have
// been used inside products and differences.
func c06Program(r *Rand, mode int) *ProgCase {
	p := Prog{}
	org := Pick(r, []int64{-1, 0, 0x7c00})
	if org >= 0 {
		p.Stmts = append(p.Stmts, PStmt{K: "org", N: org})
	}
	o := org
	if o < 0 {
		o = 0
	}
	if mode == 32 {
		p.Stmts = append(p.Stmts, PStmt{K: "bits", N: 32})
	}
	vals := map[string]int64{}
	var names []string
	ne := r.Intn(4)
	for i := 0; i < ne; i++ {
		name := fmt.Sprintf("K%d", i)
		e, v := genConstExpr(r, r.Intn(3), names, vals)
		if v < -(1<<40) || v > 1<<40 {
			e, v = &Expr{Val: int64(r.Intn(100))}, 0
			v = e.Val
		}
		p.Stmts = append(p.Stmts, PStmt{K: "equ", Label: name, Text: e.Render(r.Intn(3)), N: v, Tag: "equ"})
		vals[name] = v
		names = append(names, name)
	}
	if ne > 1 && r.Chance(1, 3) {
		// the definitions in reverse order: every name an EQU body mentions is then defined further down
		k := len(p.Stmts) - ne
		for i, j := k, len(p.Stmts)-1; i < j; i, j = i+1, j-1 {
			p.Stmts[i], p.Stmts[j] = p.Stmts[j], p.Stmts[i]
		}
	}
	nu := r.Range(2, 6)
	// the walker needs offsets to evaluate $: statements are appended one by
	// one and $ is given its value from a running size estimate, so $ is only
	// used in data lanes placed where every earlier statement has a known size
	known := true
	size := int64(0)
	for i := 0; i < nu; i++ {
		useDollar := known && r.Chance(1, 4)
		nm := names
		if useDollar {
			vals["$"] = o + size
			nm = append(append([]string{}, names...), "$")
		}
		depth := r.Range(1, 4)
		e, v := genConstExpr(r, depth, nm, vals)
		var st []PStmt
		if useDollar && e.usesNames() {
			// $ changes from statement to statement: a single rendering in a DD lane
			st = []PStmt{{K: "data", W: 4, Tag: "d4-lane-dollar", Items: []DItem{{Kind: "num", Num: v, Text: e.Render(r.Intn(3))}}}}
		} else {
			st = exprStmts(r, e, v, mode)
		}
		for _, s := range st {
			switch s.K {
			case "data":
				n := int64(0)
				for _, it := range s.Items {
					n += int64(itemLen(it, s.W))
				}
				size += n
			case "resb":
				size += s.N
			default:
				known = false
			}
		}
		p.Stmts = append(p.Stmts, st...)
		delete(vals, "$")
	}
	return &ProgCase{P: p, Prop: "C06", Cell_: fmt.Sprintf("m%d equs=%d %s", mode, ne, p.Stmts[len(p.Stmts)-1].Tag)}
}

// interleaving: sums whose constant terms are interleaved differently with a
// symbolic term ($ or an EQU name) must have the same value.
func c06Interleave(r *Rand, mode int) *ProgCase {
	p := Prog{}
	org := int64(0x7c00)
	p.Stmts = append(p.Stmts, PStmt{K: "org", N: org})
	if mode == 32 {
		p.Stmts = append(p.Stmts, PStmt{K: "bits", N: 32})
	}
	p.Stmts = append(p.Stmts, PStmt{K: "equ", Label: "BASE", Text: "0x100", N: 0x100, Tag: "equ"})
	size := int64(0)
	for i := 0; i < 4; i++ {
		k := r.Range(2, 5)
		terms := []string{}
		sum := big.NewInt(0)
		sym := Pick(r, []string{"$", "BASE"})
		symAt := r.Intn(k)
		for j := 0; j < k; j++ {
			neg := j > 0 && r.Bool()
			var tv int64
			var tt string
			if j == symAt {
				if sym == "$" {
					tv = org + size
				} else {
					tv = 0x100
				}
				tt = sym
			} else {
				tv = int64(r.Intn(500))
				tt = spellInt(tv, r.Intn(2))
			}
			if neg {
				sum.Sub(sum, big.NewInt(tv))
				terms = append(terms, "-", tt)
			} else {
				sum.Add(sum, big.NewInt(tv))
				if j > 0 {
					terms = append(terms, "+")
				}
				terms = append(terms, tt)
			}
		}
		text := ""
		for _, t := range terms {
			text += t
			if r.Bool() {
				text += " "
			}
		}
		p.Stmts = append(p.Stmts, PStmt{K: "data", W: 4, Tag: "d4-interleave", Items: []DItem{{Kind: "num", Num: sum.Int64(), Text: text}}})
		size += 4
	}
	return &ProgCase{P: p, Prop: "C06", Cell_: fmt.Sprintf("interleave m%d", mode)}
}

// forward shapes: an EQU body that mentions a name defined further down is only
// partly evaluated when it is stored, and finished where it is used.
var c06ForwardShapes = []string{"X/2*3", "X%4*3", "X*2/3", "X*2%3", "X/2/3", "X%5%3", "X*2*3", "(X-1)/4*16", "X/2*3-1", "8-X", "8-X-1", "8-X+X", "2*X", "100/X", "100%X*2", "8-X*2", "8-(X-1)",
	"X+X", "X-X", "3*X-2*X", "(X+1)*(X-1)", "X*X", "X/X+X%X", "1+2*X-3", "X-1-2-3", "100-X-X", "0-X", "(8-X)*2", "2*(8-X)", "X*-2", "X/-2*3", "-7%X*2", "X+Y*2", "Y-X", "8-Y-X", "X*Y/2", "Y/X*X"}

func c06Forward(shape string, x, y int64, mode int, k int) *ProgCase {
	p := Prog{}
	if mode == 32 {
		p.Stmts = append(p.Stmts, PStmt{K: "bits", N: 32})
	}
	e := parseExprText(shape)
	v, ok := e.Eval(map[string]int64{"X": x, "Y": y})
	if !ok {
		return nil
	}
	text := e.Render(k % 3)
	val := v.Int64()
	// A is defined before X and Y; B repeats the shape after them (fully evaluated at once); both must give the value
	p.Stmts = append(p.Stmts, PStmt{K: "equ", Label: "A", Text: text, N: val, Tag: "equ"})
	if k%2 == 0 {
		p.Stmts = append(p.Stmts, PStmt{K: "equ", Label: "A2", Text: "A+1", N: val + 1, Tag: "equ"})
	}
	p.Stmts = append(p.Stmts, PStmt{K: "equ", Label: "Y", Text: spellInt(y, k%2), N: y, Tag: "equ"}, PStmt{K: "equ", Label: "X", Text: spellInt(x, (k+1)%2), N: x, Tag: "equ"},
		PStmt{K: "equ", Label: "B", Text: text, N: val, Tag: "equ"})
	items := []DItem{{Kind: "num", Num: val, Text: "A"}, {Kind: "num", Num: val, Text: "B"}, {Kind: "num", Num: val, Text: text}}
	if k%2 == 0 {
		items = append(items, DItem{Kind: "num", Num: val + 1, Text: "A2"})
	}
	p.Stmts = append(p.Stmts, PStmt{K: "data", W: 4, Tag: "d4-forward", Items: items})
	return &ProgCase{P: p, Prop: "C06", Cell_: fmt.Sprintf("forward %s m%d", shape, mode)}
}

// forward shapes with $: the body mentions $ and a name defined further down; $ is the address of the EQU line, whatever the
// address of the statements that use the name later.
var c06DollarShapes = []string{"DOLLAR+X", "X+DOLLAR", "DOLLAR-X", "(DOLLAR-100)*X", "DOLLAR+X*2", "2*X+DOLLAR-1", "DOLLAR+X+Y", "DOLLAR*X", "X-DOLLAR", "DOLLAR/X", "DOLLAR"}

func c06ForwardDollar(shape string, x, y int64, org int64, mode int, k int) *ProgCase {
	p := Prog{}
	base := int64(0)
	if org >= 0 {
		p.Stmts = append(p.Stmts, PStmt{K: "org", N: org})
		base = org
	}
	if mode == 32 {
		p.Stmts = append(p.Stmts, PStmt{K: "bits", N: 32})
	}
	fill := func(n int) PStmt {
		var it []DItem
		for i := 0; i < n; i++ {
			it = append(it, numItem(int64(0x90+i), 0))
		}
		return PStmt{K: "data", W: 1, Tag: "fill", Items: it}
	}
	pre := k%5 + 1
	p.Stmts = append(p.Stmts, fill(pre))
	e := parseExprText(shape)
	v, ok := e.Eval(map[string]int64{"X": x, "Y": y, "DOLLAR": base + int64(pre)})
	if !ok {
		return nil
	}
	val := v.Int64()
	text := strings.ReplaceAll(e.Render(k%3), "DOLLAR", "$")
	p.Stmts = append(p.Stmts, PStmt{K: "equ", Label: "A", Text: text, N: val, Tag: "equ"})
	if k%2 == 0 {
		// used directly after its definition, and again further down
		p.Stmts = append(p.Stmts, PStmt{K: "data", W: 4, Tag: "d4-forward-dollar", Items: []DItem{{Kind: "num", Num: val, Text: "A"}}})
	}
	p.Stmts = append(p.Stmts, fill(k%3+2), PStmt{K: "equ", Label: "Y", Text: spellInt(y, k%2), N: y, Tag: "equ"}, PStmt{K: "equ", Label: "X", Text: spellInt(x, (k+1)%2), N: x, Tag: "equ"})
	p.Stmts = append(p.Stmts, PStmt{K: "data", W: 4, Tag: "d4-forward-dollar", Items: []DItem{{Kind: "num", Num: val, Text: "A"}}}, fill(3),
		PStmt{K: "data", W: 2 + 2*(k%2), Tag: "d-forward-dollar", Items: []DItem{{Kind: "num", Num: val, Text: "A"}, {Kind: "num", Num: val + 1, Text: "A+1"}}})
	return &ProgCase{P: p, Prop: "C06", Cell_: fmt.Sprintf("forward-dollar %s m%d org=%d", shape, mode, org)}
}

// DivZeroCase: an expression that divides by zero has no value: the statement must be refused with a diagnostic, never assembled
// with an invented number.
type DivZeroCase struct {
	Src   string `json:"src"`
	Shape string `json:"shape"`
	Cell_ string `json:"cell"`
}

func (c *DivZeroCase) Kind() string { return "divzero" }
func (c *DivZeroCase) Reqs() []Req  { return []Req{{Src: []byte(c.Src)}} }
func (c *DivZeroCase) Judge(rs []Res, env *Env) Outcome {
	o := Outcome{Cell: c.Cell_}
	if rs[0].Crashed() {
		o.Status, o.Note = Rejected, "crash (C13's business)"
		return o
	}
	if ok, _ := env.accepted(&rs[0]); ok {
		o.Status = Violated
		o.Viols = []Violation{{Sig: "C06|div-by-zero-accepted|" + c.Shape, Detail: fmt.Sprintf("a division by zero is assembled without any diagnostic; output %x; program:\n%s", clip(rs[0].Out, 40), c.Src)}}
		return o
	}
	o.Status = Held
	return o
}
func init() { registerKind("divzero", func() Case { return &DivZeroCase{} }) }

func c06DivZero() []Case {
	var out []Case
	exprs := []string{"0/0", "0%0", "5/0", "5%0", "0/A", "0%A", "A/A", "A%A+3", "(B-7)/A", "0*5/0", "7%7/0", "B/(B-7)", "1+0/0", "0/0*5", "-0/A", "B%A", "0/(A*2)"}
	forms := []struct{ name, f string }{{"dd", "\tDD %s"}, {"db", "\tDB %s"}, {"mov", "\tMOV EAX,%s"}, {"add", "\tADD CX,5+%s"}, {"disp", "\tMOV AX,[BX+%s]"}, {"resb", "\tRESB 2+%s"}, {"equ", "Z\tEQU\t%s\n\tDD Z+1"}}
	for i, e := range exprs {
		for j, f := range forms {
			src := "A\tEQU\t0\nB\tEQU\t7\n" + fmt.Sprintf(f.f, e) + "\n"
			if (i+j)%2 == 1 {
				src = "[BITS 32]\n" + src
			}
			out = append(out, &DivZeroCase{Src: src, Shape: f.name + " " + e, Cell_: "div-by-zero " + f.name})
		}
	}
	return out
}

func init() {
	props["C06"] = propCheck{run: func(env *Env, rep *Report) {
		env.InitBaseline()
		r := NewRand(env.Seed, "C06")
		n := 4000
		if env.Tier == "thorough" {
			n = 120000
		}
		var cases []Case
		for i := 0; i < n; i++ {
			mode := 16 + 16*(i%2)
			if i%8 == 7 {
				cases = append(cases, c06Interleave(r, mode))
			} else {
				cases = append(cases, c06Program(r, mode))
			}
		}
		k := 0
		for _, sh := range c06ForwardShapes {
			for _, x := range []int64{17, -17, 5, 0x7fff} {
				for _, y := range []int64{3, -40} {
					k++
					if c := c06Forward(sh, x, y, 16+16*(k%2), k); c != nil {
						cases = append(cases, c)
					}
				}
			}
		}
		for _, sh := range c06DollarShapes {
			for _, x := range []int64{0x10, -3, 7} {
				for _, org := range []int64{-1, 0x7c00} {
					k++
					if c := c06ForwardDollar(sh, x, 5, org, 16+16*(k%2), k); c != nil {
						cases = append(cases, c)
					}
				}
			}
		}
		cases = append(cases, c06DivZero()...)
		rep.Rule = "divisions and remainders by zero (17 expressions, literal and through EQU names, with zero and non-zero dividends, in 7 operand positions) must be refused; forward shapes with $ (the body mentions $ and names defined further down; the name is used at other addresses than the EQU line's): 11 shapes x 3 values x 2 origins; every forward shape (an EQU body over names defined further down: 37 shapes x 4 x 2 values, also reached through a second EQU) compared with the same shape after the definitions and written in place; " +
			"seeded programs: 0-3 chained EQU definitions, then 2-6 expression trees of depth <= 4 over boundary literals, + - * / %, parentheses, EQU names (reused after appearing inside products and differences) and $, each placed in a seeded operand position " +
			"(DB/DW/DD lane, list lane, MOV/ALU immediate, [reg+expr] displacement, RESB expr, ALIGNB expr, EQU body) and rendered in two spacings; plus sums whose constant terms are interleaved differently with $ / an EQU name; " +
			"oracle: math/big evaluator (precedence, left associativity, truncation toward zero) compared with the value observed in the output through the walker / reference decoder; non-trivial = accepted and all lanes judged; distinct = (mode, number of EQUs, last position) cells"
		outs := RunCases(env, cases)
		xcheckProg(env, rep, outs)
		for i := 0; i < len(cases) && len(rep.Samples) < 5; i += len(cases)/5 + 1 {
			rep.AddSample(map[string]any{"program": cases[i].(*ProgCase).P.Source(), "verdict": outs[i].Status.String()})
		}
		rep.Add(cases, outs)
	}}
}
