package main

import (
	"fmt"
	"strings"
)

// Shared generators for the relational (metamorphic) properties C10-C17.

// equDef: one EQU definition of a program
type equDef struct {
	Name string
	E    *Expr
	Val  int64
}

// genEqus: chained EQU definitions (depth up to 4); values kept small enough
// to be usable as immediates / displacements / counts.
func genEqus(r *Rand, n int) []equDef {
	var defs []equDef
	vals := map[string]int64{}
	var names []string
	for i := 0; i < n; i++ {
		var e *Expr
		var v int64
		for tries := 0; ; tries++ {
			d := r.Intn(3)
			if i == 0 || tries > 20 {
				d = 0
			}
			e, v = genConstExpr(r, d, names, vals)
			if v >= -1000 && v <= 30000 {
				break
			}
		}
		name := fmt.Sprintf("K%d", i)
		defs = append(defs, equDef{Name: name, E: e, Val: v})
		vals[name] = v
		names = append(names, name)
	}
	return defs
}

// equUse: a statement that uses an expression over EQU names in an operand
// position; returns nil when the value does not suit the position.
func equUse(r *Rand, mode int, defs []equDef) *PStmt {
	vals := map[string]int64{}
	var names []string
	for _, d := range defs {
		vals[d.Name] = d.Val
		names = append(names, d.Name)
	}
	e, v := genConstExpr(r, r.Intn(3), names, vals)
	if !e.usesNames() {
		e = &Expr{Name: Pick(r, names)}
		v = vals[e.Name]
	}
	t := e.Render(r.Intn(3))
	w := 16
	if mode == 32 {
		w = 32
	}
	switch r.Intn(7) {
	case 0:
		return &PStmt{K: "inst", X: mkInst("MOV", mode, xgpr(w, r.Intn(8)), XOp{Kind: XImm, Val: v, Text: t})}
	case 1:
		return &PStmt{K: "inst", X: mkInst(Pick(r, poolALU), mode, xgpr(w, r.Intn(8)), XOp{Kind: XImm, Val: v, Text: t})}
	case 2:
		if v < -0x8000 || v > 0x7fff {
			return nil
		}
		var sh MemShape
		names := regNames[R32]
		if mode == 16 {
			sh = MemShape{ASize: 16, Base: Pick(r, []int{3, 5, 6, 7}), Index: -1, Scale: 1, Disp: v, HasDisp: true}
			names = regNames[R16]
		} else {
			sh = MemShape{ASize: 32, Base: Pick(r, []int{0, 1, 2, 3, 6, 7}), Index: -1, Scale: 1, Disp: v, HasDisp: true}
		}
		mo := xmem(sh, w, false, 0, 0)
		mo.Text = "[" + names[sh.Base] + "+" + t + "]"
		return &PStmt{K: "inst", X: mkInst("MOV", mode, xgpr(w, r.Intn(8)), mo)}
	case 3, 4:
		ww := Pick(r, []int{1, 2, 4})
		return &PStmt{K: "data", W: ww, Items: []DItem{numItem(int64(r.Intn(100)), 0), {Kind: "num", Num: v, Text: t}}}
	case 5:
		if v < 0 || v > 300 {
			return nil
		}
		return &PStmt{K: "resb", N: v, Text: t}
	default:
		if v < 1 || v > 16 || v&(v-1) != 0 {
			return nil
		}
		return &PStmt{K: "alignb", N: v, Text: t}
	}
}

type genOpts struct {
	Equs  bool
	Jumps bool
}

// genLabelled: a program with labels (and optionally EQUs) from the size-clean pool.
func genLabelled(r *Rand, mode int, org int64, o genOpts) (*Prog, []equDef) {
	pc := c03Random(r, mode, org, o.Jumps)
	p := pc.P
	var defs []equDef
	if o.Equs {
		defs = genEqus(r, r.Range(1, 5))
		var out []PStmt
		// EQU definitions before first use; uses sprinkled over the program
		head := 0
		for head < len(p.Stmts) && (p.Stmts[head].K == "org" || p.Stmts[head].K == "bits") {
			head++
		}
		out = append(out, p.Stmts[:head]...)
		order := defs
		if len(defs) > 1 && r.Chance(1, 3) {
			// reverse order: every name an EQU body mentions is defined further down
			order = nil
			for i := len(defs) - 1; i >= 0; i-- {
				order = append(order, defs[i])
			}
		}
		for _, d := range order {
			out = append(out, PStmt{K: "equ", Label: d.Name, Text: d.E.Render(r.Intn(3)), N: d.Val})
		}
		for i := head; i < len(p.Stmts); i++ {
			out = append(out, p.Stmts[i])
			if i < len(p.Stmts)-1 && r.Chance(1, 4) {
				if u := equUse(r, mode, defs); u != nil {
					out = append(out, *u)
				}
			}
		}
		p.Stmts = out
	}
	return &p, defs
}

// bodyWithout returns the program's source lines without ORG/BITS prologue lines.
func stripKinds(p *Prog, kinds ...string) *Prog {
	q := &Prog{}
	for _, s := range p.Stmts {
		skip := false
		for _, k := range kinds {
			if s.K == k {
				skip = true
			}
		}
		if !skip {
			q.Stmts = append(q.Stmts, s)
		}
	}
	return q
}

func withPrologue(p *Prog, mode int, org int64) *Prog {
	q := &Prog{}
	if org >= 0 {
		q.Stmts = append(q.Stmts, PStmt{K: "org", N: org})
	}
	if mode == 32 {
		q.Stmts = append(q.Stmts, PStmt{K: "bits", N: 32})
	}
	q.Stmts = append(q.Stmts, p.Stmts...)
	return q
}

func firstDiff(a, b []byte) int {
	n := len(a)
	if len(b) < n {
		n = len(b)
	}
	for i := 0; i < n; i++ {
		if a[i] != b[i] {
			return i
		}
	}
	if len(a) != len(b) {
		return n
	}
	return -1
}

func indent(s string) string { return "    " + strings.ReplaceAll(s, "\n", "\n    ") }
