package main

import (
	"encoding/json"
	"fmt"
	"os"
	"os/exec"
	"path/filepath"
	"runtime"
	"strings"
)

// Env is everything one run of a check needs: binaries built from the current
// /repo tree, a scratch directory, the pool, the seed and tier.
type Env struct {
	Repo    string
	Verif   string
	Tmp     string // scratch, removed on exit
	CLI     string
	Worker  string
	Pool    *Pool
	Seed    int64
	Tier    string
	Cores   int
	Tools   map[string]string // objdump, as, llvm-readobj ... (absent = not found)
	Assumes []string
	benign  map[string]bool
}

func goEnv() []string {
	env := os.Environ()
	env = append(env, "GOFLAGS=-mod=mod", "GOPROXY=off", "GOSUMDB=off", "GOTOOLCHAIN=local", "CGO_ENABLED=0")
	return env
}

func findRepo() string {
	if r := os.Getenv("VERIF_REPO"); r != "" {
		return r
	}
	return "/repo"
}

func findVerif() string {
	if r := os.Getenv("VERIF_DIR"); r != "" {
		return r
	}
	exe, err := os.Executable()
	if err == nil {
		d := filepath.Dir(filepath.Dir(exe))
		if _, e := os.Stat(filepath.Join(d, "properties.jsonl")); e == nil {
			return d
		}
	}
	return "/verif"
}

func runCmd(dir string, env []string, name string, args ...string) (string, error) {
	cmd := exec.Command(name, args...)
	cmd.Dir = dir
	cmd.Env = env
	b, err := cmd.CombinedOutput()
	return string(b), err
}

// NewEnv builds gosk's CLI and the overlay-injected worker from the CURRENT
// working tree of /repo.  Nothing is written under /repo.
func NewEnv(tier string, seed int64, needCLI bool) (*Env, error) {
	e := &Env{Repo: findRepo(), Verif: findVerif(), Seed: seed, Tier: tier, Cores: runtime.NumCPU(), Tools: map[string]string{}}
	tmp, err := os.MkdirTemp("", "vcheck-")
	if err != nil {
		return nil, err
	}
	e.Tmp = tmp
	ov := map[string]map[string]string{"Replace": {
		filepath.Join(e.Repo, "cmd", "verifworker", "main.go"): filepath.Join(e.Verif, "worker", "main.go"),
	}}
	ovb, _ := json.Marshal(ov)
	ovPath := filepath.Join(tmp, "overlay.json")
	if err := os.WriteFile(ovPath, ovb, 0o644); err != nil {
		return nil, err
	}
	e.Worker = filepath.Join(tmp, "gosk-worker")
	out, err := runCmd(e.Repo, goEnv(), "go", "build", "-tags", "verif", "-overlay", ovPath, "-o", e.Worker, "github.com/HobbyOSs/gosk/cmd/verifworker")
	if err != nil {
		return e, fmt.Errorf("building worker from %s failed: %v\n%s", e.Repo, err, out)
	}
	if needCLI {
		e.CLI = filepath.Join(tmp, "gosk")
		out, err = runCmd(e.Repo, goEnv(), "go", "build", "-tags", "verif", "-o", e.CLI, "./cmd/gosk")
		if err != nil {
			return e, fmt.Errorf("building CLI from %s failed: %v\n%s", e.Repo, err, out)
		}
	}
	for _, t := range []string{"objdump", "as", "llvm-readobj", "llvm-mc", "llvm-objdump"} {
		if p, err := exec.LookPath(t); err == nil {
			e.Tools[t] = p
		} else {
			for _, alt := range []string{"/usr/bin/" + t + "-14", "/usr/lib/llvm-14/bin/" + t} {
				if _, e2 := os.Stat(alt); e2 == nil {
					e.Tools[t] = alt
					break
				}
			}
		}
	}
	n := e.Cores
	if v := os.Getenv("VERIF_WORKERS"); v != "" {
		fmt.Sscanf(v, "%d", &n)
	}
	if n < 1 {
		n = 1
	}
	e.Pool = NewPool(e.Worker, filepath.Join(tmp, "workers"), n)
	return e, nil
}

func (e *Env) Close() {
	if e.Tmp != "" && !strings.Contains(os.Getenv("VERIF_KEEP"), "tmp") {
		os.RemoveAll(e.Tmp)
	}
}

func (e *Env) Assume(s string) {
	for _, a := range e.Assumes {
		if a == s {
			return
		}
	}
	e.Assumes = append(e.Assumes, s)
}
