package main

import (
	"fmt"
	"strings"
)

// Program model: a list of statements with their intended meaning, renderers,
// and a walker that recovers "the byte range belonging to each statement" from
// the flat output alone.

type DItem struct {
	Kind  string `json:"k"` // num | str | label | dollar
	Num   int64  `json:"n,omitempty"`
	Str   string `json:"s,omitempty"`
	Label string `json:"l,omitempty"`
	Text  string `json:"t"` // spelling in the source
}

type PStmt struct {
	K     string  `json:"k"` // inst | jmp | movl | data | resb | resbto | alignb | label | equ | org | bits | global | extern | format | file | raw
	X     *XInst  `json:"x,omitempty"`
	Mn    string  `json:"mn,omitempty"`    // jmp: mnemonic; movl: "MOV"
	Reg   *XOp    `json:"reg,omitempty"`   // movl: destination register
	Label string  `json:"label,omitempty"` // label / equ name / referenced label
	Items []DItem `json:"items,omitempty"`
	W     int     `json:"w,omitempty"`    // data lane width in bytes
	N     int64   `json:"n,omitempty"`    // resb n | resbto target | alignb n | org | bits | equ value
	Text  string  `json:"text,omitempty"` // raw text / equ body / numeric jump target
	Num   bool    `json:"num,omitempty"`  // jmp: numeric target (N) instead of a label
	Mode  int     `json:"mode,omitempty"` // filled in by the renderer: mode in force
	Tag   string  `json:"tag,omitempty"`  // what the statement is there to observe (C05/C06 signatures)
	Alt   string  `json:"alt,omitempty"`  // raw statements of C11: the text of the inlined variant
	Off   int64   `json:"off,omitempty"`  // farjmp: the offset (N is the selector)
}

type Prog struct {
	Stmts []PStmt `json:"stmts"`
}

// RenameLabels gives labels other names everywhere they are defined or referred to.
func (p *Prog) RenameLabels(m map[string]string) {
	for i := range p.Stmts {
		s := &p.Stmts[i]
		if n, ok := m[s.Label]; ok {
			s.Label = n
		}
		if s.K == "equ" {
			if n, ok := m[s.Text]; ok {
				s.Text = n
			}
		}
		for j := range s.Items {
			it := &s.Items[j]
			if n, ok := m[it.Label]; ok {
				if it.Text == it.Label {
					it.Text = n
				}
				it.Label = n
			}
		}
	}
}

// Source renders the canonical layout: labels flush left, everything else
// after one tab, LF line ends.
func (p *Prog) Source() string {
	var b strings.Builder
	for _, s := range p.Stmts {
		b.WriteString(s.Line())
		b.WriteByte('\n')
	}
	return b.String()
}

func (s *PStmt) Line() string {
	switch s.K {
	case "inst":
		return "\t" + s.X.Stmt()
	case "jmp":
		if s.Num {
			return fmt.Sprintf("\t%s %s", s.Mn, s.Text)
		}
		return fmt.Sprintf("\t%s %s", s.Mn, s.Label)
	case "movl":
		if s.Text != "" {
			return fmt.Sprintf("\tMOV %s,%s", s.Reg.Text, s.Text) // an EQU alias of the label
		}
		return fmt.Sprintf("\tMOV %s,%s", s.Reg.Text, s.Label)
	case "stl":
		return fmt.Sprintf("\tMOV %s,%s", s.Text, s.Label) // a label stored through a memory operand without a size keyword (Text)
	case "lgdt":
		return fmt.Sprintf("\tLGDT [%s]", s.Label)
	case "farjmp":
		return fmt.Sprintf("\tJMP DWORD %d:0x%x", s.N, s.Off)
	case "meml":
		return fmt.Sprintf("\tMOV %s,[%s]", s.Reg.Text, s.Label)
	case "data":
		var t []string
		for _, it := range s.Items {
			t = append(t, it.Text)
		}
		return "\t" + map[int]string{1: "DB", 2: "DW", 4: "DD"}[s.W] + " " + strings.Join(t, ",")
	case "resb":
		if s.Text != "" {
			return "\tRESB " + s.Text
		}
		return fmt.Sprintf("\tRESB %d", s.N)
	case "resbto":
		return fmt.Sprintf("\tRESB 0x%x-$", s.N)
	case "alignb":
		if s.Text != "" {
			return "\tALIGNB " + s.Text
		}
		return fmt.Sprintf("\tALIGNB %d", s.N)
	case "label":
		return s.Label + ":"
	case "equ":
		return fmt.Sprintf("%s\tEQU\t%s", s.Label, s.Text)
	case "org":
		return fmt.Sprintf("\tORG 0x%x", s.N)
	case "bits":
		if s.Text != "" {
			return "[BITS " + s.Text + "]" // another spelling of the same number (hexadecimal, an EQU name)
		}
		return fmt.Sprintf("[BITS %d]", s.N)
	case "global":
		return "\tGLOBAL " + s.Text
	case "extern":
		return "\tEXTERN " + s.Text
	case "format":
		return fmt.Sprintf("[FORMAT %q]", s.Text)
	case "file":
		return fmt.Sprintf("[FILE %q]", s.Text)
	case "raw":
		return s.Text
	}
	return "; ?" + s.K
}

// Obs: a place in the output where a label's (or $'s) absolute value is embedded.
type Obs struct {
	Stmt  int
	Off   int // offset of the lane in the output
	Width int // bytes
	Label string
	Value int64 // value read from the output
	// for "$": Want is the true address of the statement containing it
	Dollar bool
	Via    string // "meml": the label stands inside the brackets of a memory operand
}

// Branch: a decoded relative branch.
type Branch struct {
	Stmt   int
	Label  string
	Num    bool
	Want   int64 // numeric target
	Target int64 // address the encoded displacement leads to (mod 2^opsize)
	OpSize int
	In     Inst
}

type Walk struct {
	Off      []int // offset of every statement
	Len      []int // bytes belonging to every statement
	Origin   int64
	Obs      []Obs
	Branches []Branch
	Decodes  []DecQ
	End      int
	FailAt   int // -1 = walked to the end
	FailWhy  string
	FailKind string // "encoding" (a statement does not decode to its intent) | "data" | "length"
	ModeAt   []int
}

func le(b []byte, w int) int64 {
	var v int64
	for i := 0; i < w && i < len(b); i++ {
		v |= int64(b[i]) << (8 * uint(i))
	}
	return v
}

func itemLen(it DItem, w int) int {
	if it.Kind == "str" {
		return len(it.Str)
	}
	return w
}

// DoWalk walks the flat output statement by statement.
func (p *Prog) DoWalk(out []byte) *Walk {
	w := &Walk{FailAt: -1}
	n := len(p.Stmts)
	w.Off = make([]int, n)
	w.Len = make([]int, n)
	w.ModeAt = make([]int, n)
	mode := 16
	off := 0
	fail := func(i int, kind, why string) *Walk {
		w.FailAt, w.FailKind, w.FailWhy = i, kind, why
		w.End = off
		return w
	}
	for i := range p.Stmts {
		s := &p.Stmts[i]
		w.Off[i] = off
		w.ModeAt[i] = mode
		switch s.K {
		case "org":
			w.Origin = s.N
		case "bits":
			mode = int(s.N)
		case "inst":
			in := Decode(out[minInt(off, len(out)):], mode)
			w.Decodes = append(w.Decodes, DecQ{Bytes: clip(out[minInt(off, len(out)):], 15), Mode: mode})
			x := *s.X
			x.Mode = mode
			if spec, ok := noopTable[x.Mn]; ok && len(x.Ops) == 0 && spec.Pfx == "WAIT" {
				return fail(i, "encoding", "WAIT-prefixed x87 forms are not walked")
			}
			if m := x.Match(in, in.Len); m != nil {
				return fail(i, "encoding", fmt.Sprintf("statement %d `%s` does not decode to its intent at offset %d: %s", i, x.Stmt(), off, m.Detail))
			}
			w.Len[i] = in.Len
			off += in.Len
		case "movl":
			in := Decode(out[minInt(off, len(out)):], mode)
			w.Decodes = append(w.Decodes, DecQ{Bytes: clip(out[minInt(off, len(out)):], 15), Mode: mode})
			rw := regWidth(s.Reg.Class)
			if in.Bad != "" || in.Op != "MOV" || len(in.Ops) != 2 || in.Ops[0].Kind != KReg || in.Ops[0].Class != s.Reg.Class || in.Ops[0].Reg != s.Reg.Reg || in.Ops[1].Kind != KImm || in.OpSize != rw {
				return fail(i, "encoding", fmt.Sprintf("statement %d `MOV %s,%s` does not decode to a register-immediate move at offset %d: %s", i, s.Reg.Text, s.Label, off, in))
			}
			lane := rw / 8
			w.Obs = append(w.Obs, Obs{Stmt: i, Off: off + in.Len - lane, Width: lane, Label: s.Label, Value: int64(uint64(in.Ops[1].Imm) & widthMask(rw)), Dollar: s.Label == "$"})
			w.Len[i] = in.Len
			off += in.Len
		case "stl":
			in := Decode(out[minInt(off, len(out)):], mode)
			w.Decodes = append(w.Decodes, DecQ{Bytes: clip(out[minInt(off, len(out)):], 15), Mode: mode})
			if in.Bad != "" || in.Op != "MOV" || len(in.Ops) != 2 || in.Ops[0].Kind != KMem || in.Ops[1].Kind != KImm || in.OpSize != mode {
				return fail(i, "encoding", fmt.Sprintf("statement %d `MOV %s,%s` does not decode to a store of an immediate of the mode's width at offset %d: %s", i, s.Text, s.Label, off, in))
			}
			lane := mode / 8
			w.Obs = append(w.Obs, Obs{Stmt: i, Off: off + in.Len - lane, Width: lane, Label: s.Label, Value: int64(uint64(in.Ops[1].Imm) & widthMask(mode))})
			w.Len[i] = in.Len
			off += in.Len
		case "meml":
			in := Decode(out[minInt(off, len(out)):], mode)
			w.Decodes = append(w.Decodes, DecQ{Bytes: clip(out[minInt(off, len(out)):], 15), Mode: mode})
			rw := regWidth(s.Reg.Class)
			if in.Bad != "" || in.Op != "MOV" || len(in.Ops) != 2 || in.Ops[0].Kind != KReg || in.Ops[0].Class != s.Reg.Class || in.Ops[0].Reg != s.Reg.Reg || in.Ops[1].Kind != KMem || in.Ops[1].Coef != [8]int{} || in.OpSize != rw {
				return fail(i, "encoding", fmt.Sprintf("statement %d `MOV %s,[%s]` does not decode to a load from an absolute address at offset %d: %s", i, s.Reg.Text, s.Label, off, in))
			}
			lane := in.Ops[1].ASize / 8
			w.Obs = append(w.Obs, Obs{Stmt: i, Off: off + in.Len - lane, Width: lane, Label: s.Label, Value: int64(uint64(in.Ops[1].Disp) & widthMask(in.Ops[1].ASize)), Via: "meml"})
			w.Len[i] = in.Len
			off += in.Len
		case "farjmp":
			in := Decode(out[minInt(off, len(out)):], mode)
			w.Decodes = append(w.Decodes, DecQ{Bytes: clip(out[minInt(off, len(out)):], 15), Mode: mode})
			if in.Bad != "" || in.Op != "JMPF" || len(in.Ops) != 1 || in.Ops[0].Kind != KFar || in.Ops[0].Sel != s.N || in.Ops[0].Off != s.Off || in.Ops[0].OffW != 32 {
				return fail(i, "encoding", fmt.Sprintf("statement %d `%s` does not decode to a far jump to %#x:%#x with a 32-bit offset at offset %d: %s", i, strings.TrimSpace(s.Line()), s.N, s.Off, off, in))
			}
			w.Len[i] = in.Len
			off += in.Len
		case "lgdt":
			in := Decode(out[minInt(off, len(out)):], mode)
			w.Decodes = append(w.Decodes, DecQ{Bytes: clip(out[minInt(off, len(out)):], 15), Mode: mode})
			if in.Bad != "" || in.Op != "LGDT" || len(in.Ops) != 1 || in.Ops[0].Kind != KMem || in.Ops[0].Coef != [8]int{} || in.OpSize != mode || in.Ops[0].ASize != mode {
				return fail(i, "encoding", fmt.Sprintf("statement %d `LGDT [%s]` does not decode to LGDT with an absolute operand of the mode's size at offset %d: %s", i, s.Label, off, in))
			}
			lane := mode / 8
			w.Obs = append(w.Obs, Obs{Stmt: i, Off: off + in.Len - lane, Width: lane, Label: s.Label, Value: int64(uint64(in.Ops[0].Disp) & widthMask(mode))})
			w.Len[i] = in.Len
			off += in.Len
		case "jmp":
			in := Decode(out[minInt(off, len(out)):], mode)
			w.Decodes = append(w.Decodes, DecQ{Bytes: clip(out[minInt(off, len(out)):], 15), Mode: mode})
			want := canonOp(s.Mn)
			if in.Bad != "" || in.Op != want || len(in.Ops) != 1 || in.Ops[0].Kind != KRel {
				return fail(i, "encoding", fmt.Sprintf("statement %d `%s %s%s` does not decode to that branch at offset %d: %s", i, s.Mn, s.Label, s.Text, off, in))
			}
			osz := in.OpSize
			tgt := int64(uint64(w.Origin+int64(off+in.Len)+in.Ops[0].Imm) & widthMask(osz))
			w.Branches = append(w.Branches, Branch{Stmt: i, Label: s.Label, Num: s.Num, Want: s.N, Target: tgt, OpSize: osz, In: in})
			w.Len[i] = in.Len
			off += in.Len
		case "data":
			start := off
			for _, it := range s.Items {
				l := itemLen(it, s.W)
				if off+l > len(out) {
					return fail(i, "length", fmt.Sprintf("statement %d: output ends inside a %d-byte data lane at offset %d", i, l, off))
				}
				switch it.Kind {
				case "num":
					want := int64(uint64(it.Num) & widthMask(8*s.W))
					if got := le(out[off:], s.W); got != want {
						return fail(i, "data", fmt.Sprintf("statement %d: data lane `%s` at offset %d holds %#x, expected %#x", i, it.Text, off, got, want))
					}
				case "str":
					if string(out[off:off+l]) != it.Str {
						return fail(i, "data", fmt.Sprintf("statement %d: string %q at offset %d is stored as %q", i, it.Str, off, string(out[off:off+l])))
					}
				case "label":
					w.Obs = append(w.Obs, Obs{Stmt: i, Off: off, Width: s.W, Label: it.Label, Value: le(out[off:], s.W)})
				case "dollar":
					w.Obs = append(w.Obs, Obs{Stmt: i, Off: off, Width: s.W, Label: "$", Value: le(out[off:], s.W), Dollar: true})
				}
				off += l
			}
			w.Len[i] = off - start
		case "resb", "resbto", "alignb":
			var cnt int64
			switch s.K {
			case "resb":
				cnt = s.N
			case "resbto":
				cnt = s.N - (w.Origin + int64(off))
			case "alignb":
				cnt = (s.N - ((w.Origin + int64(off)) % s.N)) % s.N // "bring the current ADDRESS to a multiple of n"
			}
			if cnt < 0 {
				return fail(i, "length", fmt.Sprintf("statement %d: negative reservation", i))
			}
			if off+int(cnt) > len(out) {
				return fail(i, "length", fmt.Sprintf("statement %d `%s`: %d zero bytes expected at offset %d but the output has only %d bytes", i, strings.TrimSpace(s.Line()), cnt, off, len(out)))
			}
			for k := 0; k < int(cnt); k++ {
				if out[off+k] != 0 {
					return fail(i, "data", fmt.Sprintf("statement %d `%s`: %d zero bytes expected at offset %d, byte %d is %#x", i, strings.TrimSpace(s.Line()), cnt, off, k, out[off+k]))
				}
			}
			w.Len[i] = int(cnt)
			off += int(cnt)
		}
	}
	w.End = off
	if off != len(out) {
		w.FailAt, w.FailKind = n, "length"
		w.FailWhy = fmt.Sprintf("the statements account for %d bytes, the output has %d", off, len(out))
	}
	return w
}

func clip(b []byte, n int) []byte {
	if len(b) > n {
		return b[:n]
	}
	return b
}

func minInt(a, b int) int {
	if a < b {
		return a
	}
	return b
}

// LabelOffsets: statement index of every label definition.
func (p *Prog) LabelIndex() map[string]int {
	m := map[string]int{}
	for i, s := range p.Stmts {
		if s.K == "label" {
			m[s.Label] = i
		}
	}
	return m
}

// staticValid: for a program made of data directives, reservations, labels and
// silent statements only, every size follows from the source text; reports
// whether the program is valid by the model (no negative reservation) and
// whether that could be decided (false when an instruction's size is needed).
func (p *Prog) staticValid() (valid bool, decided bool) {
	origin, off := int64(0), int64(0)
	for _, s := range p.Stmts {
		switch s.K {
		case "org":
			origin = s.N
		case "data":
			for _, it := range s.Items {
				off += int64(itemLen(it, s.W))
			}
		case "resb":
			if s.N < 0 {
				return false, true
			}
			off += s.N
		case "resbto":
			cnt := s.N - (origin + off)
			if cnt < 0 {
				return false, true
			}
			off += cnt
		case "alignb":
			if s.N <= 0 {
				return false, true
			}
			off += (s.N - ((origin + off) % s.N)) % s.N
		case "label", "equ", "bits", "global", "extern", "format", "file", "raw":
		default:
			return false, false
		}
	}
	return true, true
}
