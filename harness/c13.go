package main

import (
	"fmt"
	"os"
	"regexp"
	"strings"
	"time"
)

// C13: no input crashes or hangs the assembler.

type CrashCase struct {
	Src    []byte `json:"src"`
	Family string `json:"family"`
}

func (c *CrashCase) Kind() string { return "crash" }
func (c *CrashCase) Reqs() []Req  { return []Req{{Src: c.Src}} }

var reNum = regexp.MustCompile(`[0-9]+`)
var reQuoted = regexp.MustCompile(`"[^"]*"|'[^']*'`)
var reFrame = regexp.MustCompile(`github\.com/HobbyOSs/gosk/([A-Za-z0-9_/.]+)\.([A-Za-z0-9_().*]+)\(`)

func crashSignature(r *Res) (string, string) {
	msg, stack := r.Panic, r.Stack
	if msg == "" {
		txt := r.Stderr
		for _, l := range strings.Split(txt, "\n") {
			if strings.HasPrefix(l, "panic:") || strings.HasPrefix(l, "fatal error:") {
				msg = strings.TrimSpace(l)
				break
			}
		}
		stack = txt
		if msg == "" {
			msg = fmt.Sprintf("process died: exit=%d signal=%s", r.ExitCode, r.Signal)
		}
	}
	frame := "?"
	for _, m := range reFrame.FindAllStringSubmatch(stack, -1) {
		if strings.Contains(m[1], "cmd/verifworker") {
			continue
		}
		frame = m[1] + "." + m[2]
		break
	}
	norm := reQuoted.ReplaceAllString(msg, "S")
	norm = reNum.ReplaceAllString(norm, "N")
	if strings.Contains(norm, "stack overflow") || strings.Contains(norm, "goroutine stack exceeds") {
		norm = "stack overflow"
		// the innermost frames of a parser stack overflow vary: name the package only
		if strings.HasPrefix(frame, "internal/gen") {
			frame = "internal/gen (parser recursion)"
		}
	}
	if len(norm) > 120 {
		norm = norm[:120]
	}
	return norm + " @ " + frame, msg
}

func (c *CrashCase) Judge(rs []Res, env *Env) Outcome {
	r := rs[0]
	o := Outcome{Cell: c.Family}
	if r.TimedOut {
		o.Status = Violated
		o.Viols = []Violation{{Sig: "C13|hang|" + c.Family, Detail: fmt.Sprintf("the worker used more than %s of CPU time on one input of %d bytes (family %s): %s", env.Pool.limitFor(len(c.Src)), len(c.Src), c.Family, clipStr(printable(c.Src), 300))}}
		return o
	}
	if r.Crashed() {
		sig, msg := crashSignature(&r)
		o.Status = Violated
		o.Viols = []Violation{{Sig: "C13|crash|" + sig, Detail: fmt.Sprintf("%s; input (%d bytes, family %s): %s", msg, len(c.Src), c.Family, clipStr(printable(c.Src), 400))}}
		return o
	}
	o.Status = Held
	switch {
	case r.ParseErr != "":
		o.Cell += " parse-error"
	case r.Died:
		o.Cell += " diagnosed-exit"
	case len(r.Out) > 0:
		o.Cell += " output"
	default:
		o.Cell += " empty"
	}
	return o
}

func printable(b []byte) string {
	var s strings.Builder
	for _, c := range b {
		switch {
		case c == '\n':
			s.WriteString("\\n")
		case c == '\t':
			s.WriteString("\\t")
		case c >= 0x20 && c < 0x7f:
			s.WriteByte(c)
		default:
			fmt.Fprintf(&s, "\\x%02x", c)
		}
	}
	return s.String()
}

func init() { registerKind("crash", func() Case { return &CrashCase{} }) }

// StepCase: parser steps (pigeon's expression counter, a deterministic virtual
// clock) for one size family at doubling sizes.
type StepCase struct {
	Family string `json:"family"`
	Sizes  []int  `json:"sizes"`
}

func (c *StepCase) Kind() string { return "steps" }

func familySource(f string, n int) []byte {
	var b strings.Builder
	rep := func(s string, k int) string { return strings.Repeat(s, k) }
	switch f {
	case "long-operand-list":
		b.WriteString("\tDB 1" + rep(",2", n) + "\n")
	case "long-sum":
		b.WriteString("\tDD 1" + rep("+2", n) + "\n")
	case "long-product":
		b.WriteString("\tDD 1" + rep("*1", n) + "\n")
	case "long-program":
		b.WriteString(rep("\tMOV AX,1\n", n))
	case "many-labels":
		for i := 0; i < n; i++ {
			fmt.Fprintf(&b, "l%d:\n\tNOP\n", i)
		}
	case "many-comments":
		b.WriteString("\tNOP\n" + rep("; comment line\n", n))
	case "long-string":
		b.WriteString("\tDB \"" + rep("a", n) + "\"\n")
	case "long-comment":
		b.WriteString("\tNOP ; " + rep("x", n) + "\n")
	case "nested-parens":
		b.WriteString("\tDD " + rep("(", n) + "1" + rep(")", n) + "\n")
	case "nested-parens-in-brackets":
		b.WriteString("\tMOV AX,[" + rep("(", n) + "1" + rep(")", n) + "]\n")
	case "nested-parens-unbalanced":
		b.WriteString("\tDD " + rep("(", n) + "1" + rep(")", n/2) + "\n")
	case "long-sum-then-error":
		b.WriteString("\tDD 1" + rep("+2", n) + "+\n")
	case "many-equs":
		for i := 0; i < n; i++ {
			fmt.Fprintf(&b, "E%d\tEQU\t%d\n", i, i)
		}
	case "long-global-list":
		b.WriteString("\tGLOBAL _a" + rep(", _b", n) + "\n")
	case "many-labels-referenced":
		for i := 0; i < n; i++ {
			fmt.Fprintf(&b, "l%d:\n\tDW l%d\n", i, (i*7)%n)
		}
	case "many-jumps":
		for i := 0; i < n; i++ {
			fmt.Fprintf(&b, "j%d:\n\tJMP j%d\n", i, (i*7)%n)
		}
	case "many-equ-uses":
		for i := 0; i < n; i++ {
			fmt.Fprintf(&b, "E%d\tEQU\t%d\n\tDB E%d\n", i, i%200, i)
		}
	case "many-globals":
		b.WriteString("[FORMAT \"WCOFF\"]\n[BITS 32]\n")
		for i := 0; i < n; i++ {
			fmt.Fprintf(&b, "\tGLOBAL _g%d\n", i)
		}
		for i := 0; i < n; i++ {
			fmt.Fprintf(&b, "_g%d:\n\tNOP\n", i)
		}
	case "blank-lines":
		b.WriteString("\tNOP\n" + rep("\n", n) + "\tNOP\n")
	case "whitespace-run":
		b.WriteString("\tMOV" + rep(" ", n) + "AX,1\n")
	}
	return []byte(b.String())
}

var stepFamilies = []string{"long-operand-list", "long-sum", "long-product", "long-program", "many-labels", "many-comments", "long-string", "long-comment",
	"nested-parens", "nested-parens-in-brackets", "nested-parens-unbalanced", "long-sum-then-error", "many-equs", "long-global-list", "blank-lines", "whitespace-run"}

func (c *StepCase) Reqs() []Req {
	var rq []Req
	for _, n := range c.Sizes {
		rq = append(rq, Req{Src: familySource(c.Family, n), Stats: true, NoExec: true})
	}
	return rq
}

func (c *StepCase) Judge(rs []Res, env *Env) Outcome {
	o := Outcome{Cell: "steps " + c.Family}
	var steps []uint64
	for i, r := range rs {
		if r.TimedOut || r.Crashed() || r.Died {
			sig, msg := crashSignature(&r)
			kind := "crash"
			if r.TimedOut {
				kind, sig = "hang", c.Family
			}
			o.Status = Violated
			o.Viols = []Violation{{Sig: "C13|" + kind + "|" + sig, Detail: fmt.Sprintf("family %s at n=%d: %s", c.Family, c.Sizes[i], msg)}}
			return o
		}
		steps = append(steps, r.Steps)
	}
	bad := 0
	var ratios []string
	for i := 1; i < len(steps); i++ {
		if steps[i-1] == 0 {
			continue
		}
		ratio := float64(steps[i]) / float64(steps[i-1])
		ratios = append(ratios, fmt.Sprintf("%.2f", ratio))
		if ratio >= 16 {
			bad++
		} else {
			bad = 0
		}
		if bad >= 2 || (c.Sizes[i] <= 4096 && steps[i] > 1e9) {
			o.Status = Violated
			o.Viols = []Violation{{Sig: "C13|superpolynomial-parse|" + c.Family, Detail: fmt.Sprintf("parser steps for family %s at sizes %v: %v (ratios %v): worse than n^4 on two successive doublings", c.Family, c.Sizes, steps, ratios)}}
			return o
		}
	}
	o.Note = fmt.Sprintf("steps %v ratios %v", steps, ratios)
	o.Status = Held
	return o
}

func init() { registerKind("steps", func() Case { return &StepCase{} }) }

// ScaleCase: CPU time of the whole pipeline for one size family at doubling
// sizes, all in the same worker process one after the other (so that whatever
// load the machine carries affects the sizes alike).  Only the RATIO between
// successive sizes is judged, and only when the times are large enough to mean
// something: cubic or worse growth on two successive doublings is a violation.
type ScaleCase struct {
	Family string `json:"family"`
	Sizes  []int  `json:"sizes"`
}

func (c *ScaleCase) Kind() string { return "scale" }
func (c *ScaleCase) Reqs() []Req {
	var rq []Req
	for _, n := range c.Sizes {
		rq = append(rq, Req{Src: familySource(c.Family, n)})
	}
	return rq
}
func (c *ScaleCase) Judge(rs []Res, env *Env) Outcome {
	o := Outcome{Cell: "cpu-scale " + c.Family}
	var cpu []float64
	for i, r := range rs {
		if r.TimedOut || r.Crashed() || r.Died {
			sig, msg := crashSignature(&r)
			kind := "crash"
			if r.TimedOut {
				kind, sig = "hang", c.Family
			}
			o.Status = Violated
			o.Viols = []Violation{{Sig: "C13|" + kind + "|" + sig, Detail: fmt.Sprintf("family %s at n=%d: %s", c.Family, c.Sizes[i], msg)}}
			return o
		}
		cpu = append(cpu, float64(r.CPUus)/1e6)
	}
	bad := 0
	var ratios []string
	for i := 1; i < len(cpu); i++ {
		if cpu[i-1] < 0.05 {
			ratios = append(ratios, "-")
			continue // too small to mean anything
		}
		ratio := cpu[i] / cpu[i-1]
		ratios = append(ratios, fmt.Sprintf("%.2f", ratio))
		if ratio >= 7 && cpu[i] >= 2 {
			bad++
		} else {
			bad = 0
		}
		if bad >= 2 {
			o.Status = Violated
			o.Viols = []Violation{{Sig: "C13|superquadratic-time|" + c.Family, Detail: fmt.Sprintf("CPU seconds of the whole pipeline for family %s at sizes %v: %.2f (ratios %v): close to cubic or worse on two successive doublings", c.Family, c.Sizes, cpu, ratios)}}
			return o
		}
	}
	o.Note = fmt.Sprintf("cpu %.2f ratios %v", cpu, ratios)
	o.Status = Held
	return o
}

func init() { registerKind("scale", func() Case { return &ScaleCase{} }) }

// ---- workload ---------------------------------------------------------------------

var bigNumbers = []string{"0x100000000", "4294967296", "0x200000000", "0xffffffff", "0x80000000", "-2147483649", "9223372036854775807", "9223372036854775808",
	"-9223372036854775808", "18446744073709551615", "18446744073709551616", "0xffffffffffffffff", "0x10000000000000000", "340282366920938463463374607431768211456",
	"0x7fffffffffffffff", "-0", "00000000000000000000001", "0x", "0x0000000000000000000000001", "1e5", "1.5", "0b101", "077", "-0x10"}

func grammarOpcodes(repo string) []string {
	b, err := os.ReadFile(repo + "/internal/gen/grammar.peg")
	if err != nil {
		return []string{"MOV", "ADD", "DB", "JMP"}
	}
	s := string(b)
	i := strings.Index(s, "\nOpcode = ")
	if i < 0 {
		return []string{"MOV", "ADD", "DB", "JMP"}
	}
	j := strings.Index(s[i:], ";")
	re := regexp.MustCompile(`"([A-Z0-9]+)"`)
	var out []string
	for _, m := range re.FindAllStringSubmatch(s[i:i+j], -1) {
		out = append(out, m[1])
	}
	return out
}

var operandKinds = []string{"AL", "CX", "EDX", "ES", "CR0", "DR1", "TR6", "MM0", "XMM1", "ST0", "5", "0x12345", "-1", "300", "\"str\"", "'c'", "[BX]", "BYTE [SI+4]", "DWORD [EAX*4+8]",
	"WORD [0x1234]", "[ESP+EBP*2-1]", "deflabel", "nolabel", "UNDEFEQU", "8:0x10", "DWORD 2*8:0x1b", "SHORT deflabel", "FAR [BX]", "$", "$+4", "[deflabel]", "[nolabel+2]", "ES:[DI]", "(1+2)*3", "1/0", "5%0",
	"{{.x}}", "\"{{.deflabel}}\"", "[]", "[BX+]", "BYTE", "[BX*3]", "[AX]", "[EAX+EBX+ECX]", "[ESP*2]", "AX:BX", "1:2:3", "--1", "+1", "'", "\"unterminated", "[BX", "BX]",
	// degenerate literals and seg:off pairs made of them (a literal is re-rendered without its quotes, so the text downstream can be empty)
	"''", "\"\"", "' '", "'':5", "5:''", "\"\":\"\"", "' ':' '", "'ab':'cd'", "deflabel:deflabel", "nolabel:5", "-1:-1", "0x10000:5", "DWORD '':5", "['']", "''+1", "$:$", "5:", ":5", "[5:5]",
	// character constants of several lengths, with characters outside ASCII (more bytes than characters), and numbers beyond every integer type
	"'ab'", "'abcd'", "'abcde'", "'\u3042\u3044'", "'\u00e9'", "'\uff71\uff72'", "'\u3042\u3044\u3046\u3048'", "\"\u3042\"", "'a\u3042'", "99999999999999999999999", "0x", "0xffffffffffffffffffffffff", "-99999999999999999999999",
	"1234567890123456789012345678901234567890123456789012345678901234567890123456789012345678901234567890"}

func genC13Cases(env *Env, r *Rand, n int, full bool) []Case {
	ops := grammarOpcodes(env.Repo)
	var cases []Case
	add := func(fam, src string) { cases = append(cases, &CrashCase{Src: []byte(src), Family: fam}) }
	wrap := func(stmt string) string { return "deflabel:\n\tNOP\n" + stmt + "\n\tMOV AX,deflabel\n" }
	// (d) every mnemonic with arity 0..4 of every operand kind (systematic part: arity 0..2 with a rotating kind)
	k := 0
	for _, mode := range []string{"", "[BITS 32]\n"} {
		for _, op := range ops {
			add("mnemonic-arity0", mode+wrap("\t"+op))
			for a := 1; a <= 4; a++ {
				reps := 3
				if a > 2 {
					reps = 1
				}
				for rep := 0; rep < reps; rep++ {
					var xs []string
					for j := 0; j < a; j++ {
						k++
						xs = append(xs, operandKinds[(k*7+j*13+rep)%len(operandKinds)])
					}
					add(fmt.Sprintf("mnemonic-arity%d", a), mode+wrap("\t"+op+" "+strings.Join(xs, ",")))
				}
			}
		}
	}
	// every mnemonic with every operand kind as its only operand (the full product; in the quick tier for the default mode only)
	for mi, mode := range []string{"", "[BITS 32]\n"} {
		if mi == 1 && !full {
			break
		}
		for _, op := range ops {
			for _, x := range operandKinds {
				add("mnemonic-each-kind", mode+wrap("\t"+op+" "+x))
			}
		}
	}
	// operand lists of three whose members disagree about the width (r8 / r16 / r32 / small and large immediates / unsized and sized
	// memory), in every order, for the mnemonics that have a handler of their own: size inference between operands must settle
	tk := []string{"AL", "CX", "EDX", "5", "0x12345", "[BX]", "DWORD [EBX+8]"}
	if full {
		tk = append(tk, "ES", "BYTE [SI+4]", "deflabel", "CR0")
	}
	for mi, mode := range []string{"", "[BITS 32]\n"} {
		if mi == 1 && !full {
			break
		}
		for _, op := range []string{"ADC", "ADD", "AND", "CALL", "CMP", "DEC", "DIV", "IDIV", "IMUL", "IN", "INC", "INT", "JMP", "JE", "LGDT", "MOV", "MUL", "NEG", "NOT", "OR", "OUT", "POP", "PUSH", "RET",
			"SAR", "SBB", "SHL", "SHR", "SUB", "XOR", "ENTER", "TEST", "XCHG"} {
			for _, a := range tk {
				for _, b := range tk {
					for _, c := range tk {
						add("mixed-width-triple", mode+wrap("\t"+op+" "+a+","+b+","+c))
					}
				}
			}
		}
	}
	// text/template syntax reaching pass 2 through operands that are forwarded as text
	for _, mode := range []string{"", "[BITS 32]\n"} {
		for _, op := range ops {
			for _, t := range []string{"\"{{.nosuch}}\"", "\"{{.}}\"", "8:\"{{.nosuch}}\"", "\"{{.deflabel}}{{.nosuch}}\"", "\"{{\"", "{{.nosuch}}", "[\"{{.nosuch}}\"]"} {
				add("template-operand", mode+wrap("\t"+op+" "+t))
			}
		}
	}
	// (e) numbers beyond 64 bits / 2^32 multiples in every numeric position
	numPos := []string{"\tDB %s", "\tDW %s", "\tDD %s", "\tRESB %s", "\tALIGNB %s", "\tORG %s", "\tMOV AX,%s", "\tMOV EAX,%s", "\tADD BYTE [BX],%s", "\tMOV AX,[BX+%s]", "\tMOV EAX,[EBX+%s]",
		"\tINT %s", "\tJMP %s", "\tCALL %s", "\tJE %s", "\tJMP %s:0", "\tJMP 8:%s", "X EQU %s\n\tDD X", "[BITS %s]", "\tPUSH %s", "\tSHL AX,%s", "\tIN AL,%s", "\tOUT %s,AL", "\tRET %s", "\tIMUL CX,%s", "\tRESB %s-$", "\tDD %s*%s", "\tDD 1/%s", "\tDD %s%%7", "[FORMAT %s]", "\tTIMES %s DB 0"}
	for _, pos := range numPos {
		for _, v := range bigNumbers {
			if pos == "\tRESB %s-$" && v == "0x80000000" {
				// a legitimate reservation of 2 GiB - 1 bytes since repair 9badf8a (the statement stands at address 1): gosk builds
				// the image, in 13 s of CPU time alone and in 170 s when six such jobs run side by side (page faults and copies
				// under memory contention).  CPU time cannot tell that from a hang, so the input is not used (DESIGN.md 11.16).
				continue
			}
			add("big-number", wrap(strings.ReplaceAll(pos, "%s", v)))
		}
	}
	// (f) directives and templates
	for _, d := range []string{"[BITS 64]", "[BITS 8]", "[BITS]", "[FOO 1]", "[FORMAT \"ELF\"]", "[FORMAT WCOFF]", "[FORMAT \"WCOFF\"]\n[FORMAT \"BIN\"]", "[SECTION .data]", "[FILE]", "[FILE 5]", "[INSTRSET \"i486p\"]\n[INSTRSET 1]",
		"[ABSOLUTE 0]", "[PADDING 1]", "[PADSET 1]", "[OPTIMIZE 1]", "[BITS 32", "BITS 32]", "[[BITS 32]]", "\tGLOBAL", "\tGLOBAL 5", "\tGLOBAL a,,b", "\tEXTERN", "X EQU", "EQU 5", "X EQU Y", "X EQU X", "X EQU X+1\n\tDD X",
		"A EQU B\nB EQU A\n\tDD A", "X EQU Y*2\nY EQU [X*2]\n\tMOV AX,Y", "X EQU Y*2+Y*2\nY EQU [X*2]\n\tMOV AX,Y", "X EQU Y+Y+Y\nY EQU 8:X\n\tJMP Y", "A EQU B*B\nB EQU C*C\nC EQU [A*A]\n\tMOV AX,C", "X EQU [Y+Y]\nY EQU [X+X]\n\tMOV AX,X\n\tMOV BX,Y", "X EQU Y+1\nY EQU 8:X\n\tJMP Y", "A EQU B\nB EQU C\nC EQU [A]\n\tMOV AX,C", "A EQU BYTE [B]\nB EQU A\n\tMOV A,1",
		"P EQU Q*Q\nQ EQU (P)\n\tDD Q", "S EQU \"s\"\n\tDB S", "R EQU AX\n\tMOV R,1", "M EQU [BX]\n\tMOV AL,M", "F EQU 8:16\n\tJMP F", "N EQU $\n\tDW N", "N EQU $+N2\nN2 EQU 1\n\tDW N", "\tDB \"{{.deflabel}}\"", "\tMOV AX,{{.deflabel}}", "\tJMP {{", "\tDB \"{{\"", "\tDB \"}}{{\"", "{{.x}}:", "\tJMP {{.}}", "\tJMP {{template \"x\"}}", "\tJMP {{printf \"%d\" 5}}",
		"\tORG", "\tORG AX", "\tORG 1,2", "\tRESB", "\tRESB AX", "\tRESB -1", "\tALIGNB 0", "\tALIGNB 3", "\tALIGNB -4", "\tALIGNB AX", "\tTIMES 3 DB 0", "\tDB", "\tDB ,", "\tDB 1,,2", "\tDW \"ab\"", "\tDD 'abcd'", "\tDB 'ab'", "\tDB ''",
		"\tEND", "\tRESW 2", "\tRESD 2", "\tDQ 1", "\tDT 1", "\tALIGN 4", "\tINCO \"x\"", "label", "label: NOP", ":", "\t:", "a:b:", "1label:", "$:", ".:\n\tJMP .", "_:\n\tJMP _"} {
		add("directive", wrap(d))
		add("directive", d)
	}
	// names that are declared GLOBAL / EXTERN and defined by an EQU of every kind of body, in both output formats
	for _, body := range []string{"5", "-1", "0x12345678", "deflabel", "deflabel+8", "nolabel", "nolabel-4", "$", "$+2", "AX", "EAX", "ES", "[BX]", "BYTE [SI+4]", "[deflabel]", "\"hi\"", "'c'", "8:16", "DWORD 8:16", "X2*2", "(1+2)*3", "1/0", "X1", ""} {
		for _, decl := range []string{"\tGLOBAL X1\nX1\tEQU\t%s\n", "X1\tEQU\t%s\n\tGLOBAL X1\n", "\tEXTERN X1\nX1\tEQU\t%s\n", "\tGLOBAL X1, deflabel\nX1\tEQU\t%s\nX1:\n", "\tGLOBAL X1\nX1\tEQU\t%s\n\tMOV AX,X1\n\tDW X1\n"} {
			for _, fmtLine := range []string{"", "[FORMAT \"WCOFF\"]\n[BITS 32]\n"} {
				add("global-of-equ", fmtLine+"X2\tEQU\t3\n"+wrap(strings.TrimSuffix(fmt.Sprintf(decl, body), "\n")))
			}
		}
	}
	for _, g := range []string{"AX", "EAX", "BYTE", "MOV", "DB", "$", "5", "\"s\"", "[BX]", "deflabel+1", "a b", "a,", ",a", "deflabel, deflabel", "_a.b", "..", "K EQU 5"} {
		for _, kw := range []string{"GLOBAL", "EXTERN"} {
			add("global-operand", "[FORMAT \"WCOFF\"]\n[BITS 32]\n"+wrap("\t"+kw+" "+g))
			add("global-operand", wrap("\t"+kw+" "+g))
		}
	}
	// redundant parentheses around terms that are NOT constants (a label, a register sum), at depths a person would not write but a
	// generator might: evaluation must not be repeated per level
	for _, depth := range []int{4, 16, 40, 100, 400} {
		o, c := strings.Repeat("(", depth), strings.Repeat(")", depth)
		for _, st := range []string{"\tJMP " + o + "deflabel" + c, "\tMOV AL,[" + o + "SI+1" + c + "]", "\tMOV BX," + o + "deflabel" + c, "\tDW " + o + "deflabel" + c, "\tMOV AX," + o + "1+2" + c,
			"XP\tEQU\t" + o + "deflabel" + c + "\n\tMOV AX,XP", "\tMOV EAX,[EBX+" + o + "ECX*4" + c + "]", "\tRESB " + o + "0x20-$" + c, "\tDD " + o + "$" + c + "+" + o + "deflabel" + c} {
			add("nested-parens-nonconstant", wrap(st))
		}
	}
	// (a) random byte strings
	for i := 0; i < n/6; i++ {
		l := r.Range(0, 200)
		b := make([]byte, l)
		kind := r.Intn(4)
		for j := range b {
			switch kind {
			case 0:
				b[j] = byte(r.Intn(256))
			case 1:
				b[j] = byte(0x20 + r.Intn(0x5f))
			case 2:
				b[j] = "MOVADBX,[]+-*/%():;#\"' \t\n\r0123456789abxEQU$_.{}"[r.Intn(47)]
			default:
				// Shift_JIS / UTF-8 looking
				b[j] = []byte{0x82, 0xa0, 0x83, 0x5c, 0x95, 0x5c, 0xe3, 0x81, 0x82, 0x0a, ';', ' ', 'A', 0x8e, 0x7c}[r.Intn(15)]
			}
		}
		cases = append(cases, &CrashCase{Src: b, Family: fmt.Sprintf("random-bytes-%d", kind)})
	}
	// (b) token soup
	vocab := append(append([]string{}, ops...), operandKinds...)
	vocab = append(vocab, ",", ":", "[", "]", "+", "-", "*", "/", "%", "(", ")", "\n", "\n", "\t", " ", ";", "#", "EQU", "GLOBAL", "EXTERN", "BYTE", "WORD", "DWORD", "SHORT", "NEAR", "FAR", "[BITS 32]", "[FORMAT \"WCOFF\"]", "lab:", "\"", "'", "0x", "$")
	for i := 0; i < n/4; i++ {
		var b strings.Builder
		for j := r.Range(1, 30); j > 0; j-- {
			b.WriteString(Pick(r, vocab))
			if r.Chance(2, 3) {
				b.WriteString(" ")
			}
		}
		add("token-soup", b.String())
	}
	// (c) token-level mutations of valid programs
	for i := 0; i < n/3; i++ {
		mode := Pick(r, []int{16, 32})
		p, _ := genLabelled(r, mode, Pick(r, []int64{-1, 0x7c00}), genOpts{Equs: true, Jumps: true})
		src := p.Source()
		if i%7 == 0 {
			src = genCoffCase(r, "C09", nil, false).source(true)
		}
		toks := tokenize(src)
		for m := r.Range(1, 3); m > 0 && len(toks) > 0; m-- {
			j := r.Intn(len(toks))
			switch r.Intn(5) {
			case 0:
				toks = append(toks[:j], toks[j+1:]...)
			case 1:
				toks = append(toks[:j], append([]string{Pick(r, vocab)}, toks[j:]...)...)
			case 2:
				toks[j] = Pick(r, vocab)
			case 3:
				toks = append(toks[:j], append([]string{toks[j]}, toks[j:]...)...)
			default:
				toks[j] = Pick(r, bigNumbers)
			}
		}
		add("mutated-program", strings.Join(toks, ""))
	}
	// line-level mutations
	for i := 0; i < n/8; i++ {
		p, _ := genLabelled(r, Pick(r, []int{16, 32}), -1, genOpts{Equs: true, Jumps: true})
		lines := strings.Split(p.Source(), "\n")
		j := r.Intn(len(lines))
		switch r.Intn(3) {
		case 0:
			lines = append(lines[:j], lines[j+1:]...)
		case 1:
			lines = append(lines[:j], append([]string{lines[j]}, lines[j:]...)...)
		default:
			k := r.Intn(len(lines))
			lines[j], lines[k] = lines[k], lines[j]
		}
		add("mutated-lines", strings.Join(lines, "\n"))
	}
	return cases
}

// tokenize splits a source into tokens and the blanks between them (all kept).
func tokenize(s string) []string {
	var out []string
	i := 0
	isId := func(c byte) bool {
		return c == '_' || c == '$' || c == '.' || (c >= '0' && c <= '9') || (c >= 'a' && c <= 'z') || (c >= 'A' && c <= 'Z')
	}
	for i < len(s) {
		j := i + 1
		if isId(s[i]) {
			for j < len(s) && isId(s[j]) {
				j++
			}
		} else if s[i] == '"' {
			for j < len(s) && s[j] != '"' && s[j] != '\n' {
				j++
			}
			if j < len(s) {
				j++
			}
		}
		out = append(out, s[i:j])
		i = j
	}
	return out
}

func init() {
	props["C13"] = propCheck{run: func(env *Env, rep *Report) {
		env.InitBaseline()
		env.Pool.cpuLimit = 60 * time.Second
		env.Pool.HangFuse = 12 // a dozen decided hangs are a verdict; the unchanged tree has one (F1302)
		r := NewRand(env.Seed, "C13")
		n := 12000
		if env.Tier == "thorough" {
			n = 400000
		}
		cases := genC13Cases(env, r, n, env.Tier == "thorough")
		// size families with the parser-step monitor
		sizes := []int{16, 32, 64, 128, 256, 512, 1024, 2048, 4096}
		if env.Tier == "thorough" {
			sizes = append(sizes, 8192, 16384, 32768, 65536)
		}
		for _, f := range stepFamilies {
			sz := sizes
			if strings.HasPrefix(f, "nested") {
				// deeper nesting is the listed stack-overflow finding (F1301), reproduced separately below
				sz = []int{16, 32, 64, 128, 256, 512, 1024, 2048, 4096}
			}
			cases = append(cases, &StepCase{Family: f, Sizes: sz})
		}
		// full pipeline on large inputs (CPU watchdog)
		big := 20000
		if env.Tier == "thorough" {
			big = 100000
		}
		for _, f := range []string{"long-operand-list", "long-sum", "long-program", "many-labels", "many-comments", "long-string", "many-equs", "blank-lines"} {
			cases = append(cases, &CrashCase{Src: familySource(f, big), Family: "large-" + f})
		}
		// CPU time of the whole pipeline at doubling sizes
		scale := []int{500, 1000, 2000, 4000}
		if env.Tier == "thorough" {
			scale = []int{500, 1000, 2000, 4000, 8000, 16000}
		}
		for _, f := range []string{"long-program", "many-labels", "many-labels-referenced", "many-jumps", "many-equs", "many-equ-uses", "many-globals", "long-operand-list", "long-sum", "long-string", "many-comments"} {
			cases = append(cases, &ScaleCase{Family: f, Sizes: scale})
		}
		// EQU chains whose stored expressions double at every level (symbolic term that is never combined)
		for _, depth := range []int{8, 16, 32} {
			var b strings.Builder
			b.WriteString("A0\tEQU\tlab+1\n")
			for i := 1; i <= depth; i++ {
				fmt.Fprintf(&b, "A%d\tEQU\tA%d+A%d\n", i, i-1, i-1)
			}
			fmt.Fprintf(&b, "\tMOV EAX,A%d\nlab:\n", depth)
			cases = append(cases, &CrashCase{Src: []byte(b.String()), Family: fmt.Sprintf("equ-doubling-chain-%d", depth)})
		}
		// the known deep-nesting crash, under its own signature
		cases = append(cases, &CrashCase{Src: familySource("nested-parens", 100000), Family: "deep-nesting"})
		rep.Rule = "hostile inputs: every mnemonic of the grammar's Opcode rule (read from the tree) with 0-4 operands of every operand kind (registers of every class, immediates, strings, sized/unsized memory, defined/undefined labels and EQUs, seg:off, templates, malformed brackets) in both modes; all ordered triples over operands of different widths (r8/r16/r32, small and large immediates, unsized and DWORD memory; thorough also sreg, BYTE memory, a label, CR0) for the 33 mnemonics with handlers of their own; numbers beyond 64 bits and 2^32 multiples in every numeric position; unknown and malformed directives, EQU cycles, text/template syntax; random byte strings (raw, printable, Shift_JIS/UTF-8 looking); token soup; token- and line-level mutations of valid programs; " +
			"size families to 10^5 tokens. Monitors: worker liveness (panic value, fatal error, signal), parser virtual time (pigeon expression count at doubling sizes: a ratio >= 16 on two successive doublings is a violation), CPU time of the whole pipeline at doubling sizes in one worker (a ratio >= 7 on two successive doublings with at least 2 s is a violation; absolute times are not judged), per-request CPU-time budget of 60 s + 1 ms per input byte, watchdog. non-trivial = input ran to an outcome (output, parse error or diagnosed exit); distinct = (family, outcome class) cells"
		outs := RunCases(env, cases)
		fam := map[string]any{}
		for i, c := range cases {
			if sc, ok := c.(*StepCase); ok {
				fam[sc.Family] = outs[i].Note
			}
		}
		rep.Extra["parser_steps"] = fam
		sc := map[string]any{}
		for i, c := range cases {
			if x, ok := c.(*ScaleCase); ok {
				sc[x.Family] = outs[i].Note
			}
		}
		rep.Extra["pipeline_cpu_seconds_at_doubling_sizes"] = sc
		for i := 0; i < len(cases) && len(rep.Samples) < 6; i += len(cases)/6 + 1 {
			if cc, ok := cases[i].(*CrashCase); ok {
				rep.AddSample(map[string]any{"family": cc.Family, "input": clipStr(printable(cc.Src), 200), "verdict": outs[i].Status.String(), "outcome": outs[i].Cell})
			}
		}
		rep.Add(cases, outs)
	}}
}
