package main

import (
	"encoding/hex"
	"fmt"
)

// C16: ORG relocates absolute references and nothing else.
type OrgCase struct {
	P     Prog    `json:"prog"` // without ORG statement, 16-bit
	Orgs  []int64 `json:"orgs"` // -1 = no ORG statement
	Mode  int     `json:"mode,omitempty"` // 0 = 16-bit program
	Cell_ string  `json:"cell"`
}

func (c *OrgCase) Kind() string { return "org" }
func (c *OrgCase) prog(org int64) *Prog {
	if c.Mode == 32 {
		return withPrologue(&c.P, 32, org)
	}
	return withPrologue(&c.P, 16, org)
}
func (c *OrgCase) Reqs() []Req {
	var rq []Req
	for _, o := range c.Orgs {
		rq = append(rq, Req{Src: []byte(c.prog(o).Source())})
	}
	return rq
}

func (c *OrgCase) Judge(rs []Res, env *Env) Outcome {
	o := Outcome{Cell: c.Cell_}
	nok, firstBad, whyBad := 0, -1, ""
	for i := range rs {
		if ok, why := env.accepted(&rs[i]); ok {
			nok++
		} else if firstBad < 0 {
			firstBad, whyBad = i, why
		}
	}
	if nok == 0 {
		o.Status, o.Note = Rejected, whyBad
		return o
	}
	if firstBad >= 0 {
		// the same program is accepted at one origin and refused at another: the origin changed more than absolute references
		o.Status = Violated
		o.Viols = []Violation{{Sig: fmt.Sprintf("C16|refused-at-some-origins|bad=%d", c.Orgs[firstBad]),
			Detail: fmt.Sprintf("the program assembles at %d of the %d origins %v but is refused at origin %d (%s); program:\n%s", nok, len(rs), c.Orgs, c.Orgs[firstBad], whyBad, c.P.Source())}}
		return o
	}
	orgv := func(x int64) int64 {
		if x < 0 {
			return 0
		}
		return x
	}
	pa := c.prog(c.Orgs[0])
	a := rs[0].Out
	w := pa.DoWalk(a)
	o.Decodes = w.Decodes
	if w.FailAt >= 0 {
		o.Status, o.Note = Inconclusive, "walk of the first image stopped: "+oneLine(w.FailWhy, 100)
		return o
	}
	// byte ranges that hold absolute values
	abs := make([]int, len(a)) // 0 = not a lane, else lane id
	type lane struct{ off, width int }
	var lanes []lane
	for _, ob := range w.Obs {
		lanes = append(lanes, lane{ob.Off, ob.Width})
		for k := 0; k < ob.Width && ob.Off+k < len(a); k++ {
			abs[ob.Off+k] = len(lanes)
		}
	}
	fail := func(j int, kind, detail string) Outcome {
		o.Status = Violated
		o.Viols = []Violation{{Sig: fmt.Sprintf("C16|%s|a=%d b=%d", kind, c.Orgs[0], c.Orgs[j]),
			Detail: fmt.Sprintf("%s\n--- program (ORG %#x vs ORG %#x):\n%s\n image A %s\n image B %s", detail, orgv(c.Orgs[0]), orgv(c.Orgs[j]), c.P.Source(), hex.EncodeToString(clip(a, 160)), hex.EncodeToString(clip(rs[j].Out, 160)))}}
		return o
	}
	for j := 1; j < len(rs); j++ {
		b := rs[j].Out
		delta := orgv(c.Orgs[j]) - orgv(c.Orgs[0])
		if len(b) != len(a) {
			return fail(j, "length", fmt.Sprintf("output length changes with the origin: %d bytes vs %d bytes", len(a), len(b)))
		}
		for k := range a {
			if abs[k] == 0 && a[k] != b[k] {
				st := 0
				for i := range pa.Stmts {
					if w.Off[i] <= k {
						st = i
					}
				}
				return fail(j, "non-absolute-byte", fmt.Sprintf("byte %d (in statement `%s`) is not part of an absolute reference but changes from %#x to %#x", k, pa.Stmts[st].Line(), a[k], b[k]))
			}
		}
		for _, ln := range lanes {
			va, vb := le(a[ln.off:], ln.width), le(b[ln.off:], ln.width)
			mask := widthMask(8 * ln.width)
			if (uint64(vb)-uint64(va))&mask != uint64(delta)&mask {
				return fail(j, "absolute-delta", fmt.Sprintf("the absolute reference at offset %d (%d bytes) changes from %#x to %#x, expected +%#x", ln.off, ln.width, va, vb, delta))
			}
		}
	}
	o.Status = Held
	return o
}

func init() { registerKind("org", func() Case { return &OrgCase{} }) }

// addDollarEqus: names that capture `$` (`HERE EQU $`), on the first line of the program (directly after the ORG line) and at a
// seeded place further down, used from data and MOV statements elsewhere.  A label at the same place tells the walker what the
// name stands for.
func addDollarEqus(r *Rand, p *Prog) {
	places := []int{0}
	if len(p.Stmts) > 2 {
		places = append(places, r.Range(1, len(p.Stmts)-1))
	}
	if r.Chance(1, 3) {
		places = places[1:]
	}
	for n := len(places) - 1; n >= 0; n-- {
		at := places[n]
		lab, name := fmt.Sprintf("HL%d", n), fmt.Sprintf("HERE%d", n)
		ins := []PStmt{{K: "label", Label: lab}, {K: "equ", Label: name, Text: "$", Tag: "EQU"}}
		if r.Chance(1, 3) {
			ins = append(ins, PStmt{K: "equ", Label: name + "B", Text: name, Tag: "EQU"})
			name += "B"
		}
		uses := []PStmt{
			{K: "data", W: 2, Items: []DItem{{Kind: "label", Label: lab, Text: name}}},
			{K: "movl", Reg: probeReg(16, r.Intn(8)), Label: lab, Text: name},
			{K: "data", W: 4, Items: []DItem{{Kind: "label", Label: lab, Text: name}, numItem(int64(r.Intn(100)), 0)}},
		}
		Shuffle(r, uses)
		uses = uses[:r.Range(1, 3)]
		st := append([]PStmt{}, p.Stmts[:at]...)
		st = append(st, ins...)
		// the uses go somewhere after the definition, before the final label
		rest := append([]PStmt{}, p.Stmts[at:]...)
		k := 0
		if len(rest) > 1 {
			k = r.Intn(len(rest))
		}
		st = append(st, rest[:k]...)
		st = append(st, uses...)
		st = append(st, rest[k:]...)
		p.Stmts = st
	}
}

// addLabelStores: a label stored through a memory operand without a size keyword (`MOV [BX],msg`): the immediate keeps the width
// of the mode whatever the label's absolute value is.
func addLabelStores(r *Rand, p *Prog) {
	var labs []string
	for _, s := range p.Stmts {
		if s.K == "label" {
			labs = append(labs, s.Label)
		}
	}
	if len(labs) == 0 || len(p.Stmts) < 2 {
		return
	}
	for n := r.Range(1, 2); n > 0; n-- {
		st := PStmt{K: "stl", Text: Pick(r, []string{"[BX]", "[SI]", "[0x500]", "[BP+2]", "[DI+0x100]"}), Label: Pick(r, labs)}
		k := r.Intn(len(p.Stmts) - 1)
		rest := append([]PStmt{}, p.Stmts[k:]...)
		p.Stmts = append(append(p.Stmts[:k:k], st), rest...)
	}
}

var c16Origins = []int64{-1, 0, 0x100, 0x7c00, 0xc200, 0x8000, 0xfff0}
var c16Origins32 = []int64{-1, 0, 0x100000, 0x280000, 0x7fffffc0, 0x7ffffff0, 0x80000000, 0xc0000000, 0xfffff000}

func init() {
	props["C16"] = propCheck{run: func(env *Env, rep *Report) {
		env.InitBaseline()
		r := NewRand(env.Seed, "C16")
		n := 600
		if env.Tier == "thorough" {
			n = 20000
		}
		var cases []Case
		for i := 0; i < n; i++ {
			p, _ := genLabelled(r, 16, -1, genOpts{Equs: i%3 == 0, Jumps: true})
			if i%2 == 1 {
				addDollarEqus(r, p)
			}
			if i%3 == 0 {
				addLabelStores(r, p)
			}
			var orgs []int64
			if env.Tier == "thorough" {
				orgs = append(orgs, c16Origins...)
				// rotate so that every origin serves as the reference image
				k := i % len(orgs)
				orgs = append(orgs[k:], orgs[:k]...)
			} else {
				orgs = Sample(r, c16Origins, 4)
			}
			cases = append(cases, &OrgCase{P: *p, Orgs: orgs, Cell_: fmt.Sprintf("ref=%d stmts=%d", orgs[0], len(p.Stmts)/10)})
		}
		// 32-bit programs at the origins 32-bit code is loaded at, including images that straddle 2^31 and lie above it
		for i := 0; i < n/4; i++ {
			p, _ := genLabelled(r, 32, -1, genOpts{Equs: i%3 == 0, Jumps: true})
			orgs := Sample(r, c16Origins32, 4)
			if env.Tier == "thorough" {
				orgs = append([]int64{}, c16Origins32...)
				k := i % len(orgs)
				orgs = append(orgs[k:], orgs[:k]...)
			}
			cases = append(cases, &OrgCase{P: *p, Orgs: orgs, Mode: 32, Cell_: fmt.Sprintf("m32 ref=%d stmts=%d", orgs[0], len(p.Stmts)/10)})
		}
		rep.Rule = "seeded 16-bit programs from the size-clean pool with label-target branches, MOV r,label, DW/DD label, DW $, MOV r,$, ALIGNB <= 16, EQUs, and (every second program) names defined as `EQU $` on the first line after ORG and further down, used from DW/DD/MOV elsewhere, and (every third) labels stored through a memory operand without a size keyword; each assembled at origins from {none, 0, 0x100, 0x7c00, 0xc200, 0x8000, 0xfff0} (thorough: all 7, quick: 4); a fifth of the programs are 32-bit programs assembled at origins from {none, 0, 0x100000, 0x280000, 0x7fffffc0, 0x7ffffff0 (the image straddles 2^31), 0x80000000, 0xc0000000, 0xfffff000}; " +
			"constructs whose size legitimately depends on absolute values (RESB x-$, numeric branch targets) are excluded; oracle: the walker marks the byte ranges holding absolute label/$ values in the reference image; every other image has the same length, identical bytes outside those ranges (so relative displacements are unchanged) and value_b - value_a = b - a inside them; no ORG == ORG 0; distinct = (reference origin, size bucket) cells"
		outs := RunCases(env, cases)
		xcheckProg(env, rep, outs)
		for i := 0; i < len(cases) && len(rep.Samples) < 3; i += len(cases)/3 + 1 {
			oc := cases[i].(*OrgCase)
			rep.AddSample(map[string]any{"program": clipStr(oc.P.Source(), 700), "origins": oc.Orgs, "verdict": outs[i].Status.String()})
		}
		rep.Add(cases, outs)
	}}
}
