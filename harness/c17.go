package main

import (
	"bytes"
	"encoding/hex"
	"fmt"
	"strings"
)

// C17: BITS selects the encoding mode for what follows it.
type BitsCase struct {
	Segs   [][]PStmt `json:"segs"`
	Modes  []int     `json:"modes"`  // mode of each segment; Modes[0] == 0 means "no directive" (16-bit default)
	Noise  []string  `json:"noise"`  // lines placed between the directive and the segment's first statement (emit nothing)
	Before []string  `json:"before"` // lines before the first directive (emit nothing)
	Spell  []string  `json:"spell,omitempty"` // how the whole program writes the operand of each directive ("" = decimal): 0x20, 0X10, an EQU name; the parts always write it in decimal
	Cell_  string    `json:"cell"`
}

func (c *BitsCase) Kind() string { return "bits" }
func (c *BitsCase) Spread() bool { return true }

func segSrc(mode int, noise []string, seg []PStmt) string { return segSrcSpelt(mode, "", noise, seg) }

func segSrcSpelt(mode int, spell string, noise []string, seg []PStmt) string {
	var b strings.Builder
	if mode != 0 && spell != "" {
		fmt.Fprintf(&b, "[BITS %s]\n", spell)
	} else if mode != 0 {
		fmt.Fprintf(&b, "[BITS %d]\n", mode)
	}
	for _, n := range noise {
		b.WriteString(n + "\n")
	}
	for _, s := range seg {
		b.WriteString(s.Line() + "\n")
	}
	return b.String()
}

func (c *BitsCase) whole() string {
	var b strings.Builder
	for _, l := range c.Before {
		b.WriteString(l + "\n")
	}
	for i := range c.Segs {
		var noise []string
		if i == 0 {
			noise = c.Noise
		}
		sp := ""
		if i < len(c.Spell) {
			sp = c.Spell[i]
		}
		b.WriteString(segSrcSpelt(c.Modes[i], sp, noise, c.Segs[i]))
	}
	return b.String()
}

func (c *BitsCase) Reqs() []Req {
	rq := []Req{{Src: []byte(c.whole())}}
	for i := range c.Segs {
		rq = append(rq, Req{Src: []byte(segSrc(c.Modes[i], nil, c.Segs[i]))})
	}
	return rq
}

func (c *BitsCase) Judge(rs []Res, env *Env) Outcome {
	o := Outcome{Cell: c.Cell_}
	segsOK := true
	for i := 1; i < len(rs); i++ {
		if ok, why := env.accepted(&rs[i]); !ok {
			segsOK = false
			o.Note = why
		}
	}
	wholeOK, whyWhole := env.accepted(&rs[0])
	if !segsOK && !wholeOK {
		o.Status = Rejected
		return o
	}
	if segsOK != wholeOK {
		o.Status = Violated
		o.Viols = []Violation{{Sig: "C17|refusal-depends-on-mode-context",
			Detail: fmt.Sprintf("every segment assembles alone under its own [BITS]: %v; the whole program assembles: %v (%s %s); program:\n%s", segsOK, wholeOK, o.Note, whyWhole, c.whole())}}
		return o
	}
	var want []byte
	for i := range c.Segs {
		want = append(want, rs[i+1].Out...)
	}
	got := rs[0].Out
	if bytes.Equal(got, want) {
		o.Status = Held
		return o
	}
	pos, seg := 0, -1
	for i := range c.Segs {
		n := len(rs[i+1].Out)
		if pos+n > len(got) || !bytes.Equal(got[pos:pos+n], rs[i+1].Out) {
			seg = i
			break
		}
		pos += n
	}
	m := 16
	if seg >= 0 && c.Modes[seg] != 0 {
		m = c.Modes[seg]
	}
	o.Status = Violated
	o.Viols = []Violation{{Sig: fmt.Sprintf("C17|segments|seg=%d of %d mode=%d", minInt(seg, 3), minInt(len(c.Segs), 4), m),
		Detail: fmt.Sprintf("the program assembles to %s but its segments, each assembled alone under its own [BITS], give %s (first difference in segment %d, mode %d); program:\n%s",
			hex.EncodeToString(clip(got, 200)), hex.EncodeToString(clip(want, 200)), seg, m, c.whole())}}
	return o
}

func init() { registerKind("bits", func() Case { return &BitsCase{} }) }

var c17Noise = []string{"; a comment", "# another", "", "KK\tEQU\t5", "\tGLOBAL _a, _b", "\tEXTERN _c", "[INSTRSET \"i486p\"]", "[FILE \"f.nas\"]", "KQ\tEQU\tKK*2", "[OPTIMIZE 1]"}

// echoable: the same statement text is valid (and free of listed defects) in the other mode
func echoable(s PStmt, mode int) bool {
	if s.K != "inst" {
		return s.K == "data"
	}
	for _, o := range s.X.Ops {
		if o.Kind == XMem && o.ASize == 16 {
			return false // 16-bit addressing in 32-bit code is F102
		}
		if o.Kind == XMem && o.ASize == 0 && (o.Disp > 0xffff || o.Disp < -0x8000) {
			return false
		}
	}
	x := *s.X
	x.Mode = mode
	return sizeSafe(&x)
}

// echoes: copies of statements of the previous group, to be assembled again in the other mode
// (a cache keyed by statement text without the mode would replay the wrong size or bytes)
func echoes(r *Rand, prev []PStmt, mode int) []PStmt {
	var out []PStmt
	for _, s := range prev {
		if echoable(s, mode) && r.Chance(1, 2) {
			c := s
			if s.K == "inst" {
				x := *s.X
				x.Mode = mode
				c.X = &x
			}
			out = append(out, c)
		}
	}
	return out
}

func genC17(r *Rand) *BitsCase {
	c := &BitsCase{}
	n := r.Range(1, 5)
	for i := 0; i < n; i++ {
		mode := Pick(r, []int{16, 32})
		if i == 0 && r.Chance(1, 3) {
			c.Modes = append(c.Modes, 0)
			mode = 16
		} else {
			if i > 0 && r.Chance(2, 3) {
				// switch
				prev := c.Modes[i-1]
				if prev == 0 {
					prev = 16
				}
				mode = 48 - prev
			}
			c.Modes = append(c.Modes, mode)
		}
		seg := poolSeq(r, mode, 1, 6)
		if i > 0 && r.Bool() {
			seg = append(echoes(r, c.Segs[i-1], mode), seg...)
		}
		c.Segs = append(c.Segs, seg)
	}
	taken := map[string]bool{}
	add := func(dst *[]string, k int) {
		for i := 0; i < k; i++ {
			l := Pick(r, c17Noise)
			if strings.Contains(l, "EQU") {
				if taken[l] || (strings.HasPrefix(l, "KQ") && !taken["KK\tEQU\t5"]) {
					continue
				}
				taken[l] = true
			}
			*dst = append(*dst, l)
		}
	}
	add(&c.Before, r.Intn(4))
	add(&c.Noise, r.Intn(5))
	// the operand of the directive in another spelling of the same number: hexadecimal, or an EQU name defined up front
	if r.Chance(1, 3) {
		c.Spell = make([]string, len(c.Modes))
		named := false
		for i, m := range c.Modes {
			if m == 0 || r.Chance(1, 3) {
				continue
			}
			c.Spell[i] = Pick(r, map[int][]string{16: {"0x10", "0X10", "MODE16", "0x010"}, 32: {"0x20", "0X20", "MODE32", "0x020"}}[m])
			named = named || strings.HasPrefix(c.Spell[i], "MODE")
		}
		if named {
			c.Before = append([]string{"MODE16\tEQU\t16", "MODE32\tEQU\t32"}, c.Before...)
		}
	}
	// a leading blank or comment line is fine now that labels may follow them; statements only here
	c.Cell_ = fmt.Sprintf("segs=%d first=%d noise=%d before=%d", n, c.Modes[0], len(c.Noise), len(c.Before))
	return c
}

// bitsWalk: a program that switches mode between instruction groups, with a
// label after the last statement whose value is probed at the very beginning:
// sizes used for address assignment must follow the mode as well.
func genC17Walk(r *Rand) *ProgCase {
	p := Prog{}
	mode := 16
	// a directive may be written although another one follows before any statement: only the last one counts
	nq := 0
	superseded := func(final int) {
		if !r.Chance(1, 3) {
			return
		}
		p.Stmts = append(p.Stmts, PStmt{K: "bits", N: int64(Pick(r, []int{48 - final, 48 - final, final}))})
		switch r.Intn(4) {
		case 0:
			p.Stmts = append(p.Stmts, PStmt{K: "raw", Text: "; nothing is emitted between the two directives"})
		case 1:
			nq++
			p.Stmts = append(p.Stmts, PStmt{K: "equ", Label: fmt.Sprintf("SEL%d", nq), Text: "8", N: 8})
		case 2:
			nq++
			p.Stmts = append(p.Stmts, PStmt{K: "label", Label: fmt.Sprintf("gap%d", nq)})
		}
	}
	if r.Bool() {
		superseded(16)
		p.Stmts = append(p.Stmts, PStmt{K: "bits", N: 16})
	}
	p.Stmts = append(p.Stmts, PStmt{K: "movl", Reg: probeReg(16, r.Intn(8)), Label: "zend"})
	n := r.Range(2, 5)
	var lastGroup []PStmt
	defined := map[string]bool{}
	for i := 0; i < n; i++ {
		if i > 0 {
			mode = 48 - mode
			superseded(mode)
			bs := PStmt{K: "bits", N: int64(mode)}
			if r.Chance(1, 4) {
				bs.Text = Pick(r, map[int][]string{16: {"0x10", "0X10", "0x0010"}, 32: {"0x20", "0X20", "0x0020"}}[mode])
			}
			p.Stmts = append(p.Stmts, bs)
		}
		// other directives between the [BITS] line and the code it governs must not disturb the mode in force
		if i > 0 && r.Chance(1, 3) {
			switch r.Intn(5) {
			case 0:
				p.Stmts = append(p.Stmts, PStmt{K: "raw", Text: Pick(r, []string{"[INSTRSET \"i486p\"]", "[OPTIMIZE 1]", "[FILE \"w.nas\"]", "[SECTION .text]"}), Tag: "bracket"})
			case 1:
				p.Stmts = append(p.Stmts, PStmt{K: "alignb", N: int64(Pick(r, []int{2, 4, 16}))})
			case 2:
				nq++
				p.Stmts = append(p.Stmts, PStmt{K: "equ", Label: fmt.Sprintf("SEL%d", nq), Text: "16", N: 16})
			case 3:
				p.Stmts = append(p.Stmts, PStmt{K: "global", Text: "_w1, _w2"})
			default:
				p.Stmts = append(p.Stmts, PStmt{K: "data", W: 1, Items: []DItem{numItem(int64(r.Intn(256)), 1), numItem(int64(r.Intn(256)), 0)}})
			}
		}
		// a label branch is often the FIRST statement after the switch (its ocode is rewritten in pass 2)
		jumped := false
		l := fmt.Sprintf("M%d", i)
		if r.Chance(1, 5) {
			// or a far jump (sized by its own rule: 8 bytes in 16-bit code, 7 in 32-bit code)
			p.Stmts = append(p.Stmts, PStmt{K: "farjmp", N: int64(Pick(r, []int{8, 16, 0x28})), Off: int64(Pick(r, []int{0x1b, 0x7c00, 0x280000}))})
		} else if r.Chance(2, 3) {
			p.Stmts = append(p.Stmts, PStmt{K: "jmp", Mn: Pick(r, []string{"JMP", "JE", "JNZ", "CALL", "JC", "JAE"}), Label: l})
			jumped = true
		}
		if i > 0 && r.Bool() {
			p.Stmts = append(p.Stmts, echoes(r, lastGroup, mode)...)
		}
		lastGroup = nil
		for k := r.Range(1, 4); k > 0; k-- {
			st := poolStmtSized(r, mode)
			lastGroup = append(lastGroup, st)
			p.Stmts = append(p.Stmts, st)
			if !jumped && r.Chance(1, 4) {
				p.Stmts = append(p.Stmts, PStmt{K: "jmp", Mn: Pick(r, []string{"JMP", "JE", "CALL"}), Label: l})
				jumped = true
			}
		}
		// the other statements that embed a label and are sized by the mode: LGDT [label] (0F 01 /2 with a 16- or 32-bit
		// address), MOV reg,[label]; targets lie ahead (zend) or behind (the previous segment's label)
		if r.Chance(1, 3) {
			tl := "zend"
			if i > 0 && r.Bool() {
				tl = fmt.Sprintf("M%d", i-1)
				if !defined[tl] {
					tl = "zend"
				}
			}
			if r.Bool() {
				p.Stmts = append(p.Stmts, PStmt{K: "lgdt", Label: tl})
			} else {
				p.Stmts = append(p.Stmts, PStmt{K: "meml", Reg: probeReg(mode, r.Intn(8)), Label: tl})
			}
		}
		if jumped || r.Bool() {
			defined[l] = true
			p.Stmts = append(p.Stmts, PStmt{K: "label", Label: l}, PStmt{K: "movl", Reg: probeReg(mode, r.Intn(8)), Label: l})
		}
	}
	p.Stmts = append(p.Stmts, PStmt{K: "label", Label: "zend"})
	return &ProgCase{P: p, Prop: "C03", Cell_: fmt.Sprintf("walk segs=%d", n), Ctx: "bits"}
}

func init() {
	props["C17"] = propCheck{run: func(env *Env, rep *Report) {
		env.InitBaseline()
		r := NewRand(env.Seed, "C17")
		n := 1000
		if env.Tier == "thorough" {
			n = 30000
		}
		var cases []Case
		for i := 0; i < n; i++ {
			if i%4 == 3 {
				pc := genC17Walk(r)
				pc.Prop = "C17"
				cases = append(cases, pc)
			} else {
				cases = append(cases, genC17(r))
			}
		}
		rep.Rule = "seeded programs of 1-5 segments, each a label-free sequence from the clean pool introduced by [BITS 16|32] (the first optionally by nothing), with the first directive placed among comments, EQUs, GLOBAL/EXTERN, other [..] directives; in a third of the programs the directives write their operand as 0x10/0x20/0X20 or as an EQU name while the separately assembled parts write it in decimal; " +
			"oracle (a): out(P) must equal the concatenation of out([BITS m_i]; segment_i) assembled separately; (b) programs that switch mode 1-4 times with labels: the walker decodes every segment under its own mode and all embedded label values, including a label after the last statement, must be true offsets (sizes follow the mode too); a third of the switches are followed by another directive ([INSTRSET]/[OPTIMIZE]/[FILE]/[SECTION], ALIGNB, an EQU, GLOBAL, DB) before the code, and a third of the segments hold LGDT [label] or MOV reg,[label] with the label ahead or behind; distinct = (segments, first directive, noise, position) cells"
		outs := RunCases(env, cases)
		xcheckProg(env, rep, outs)
		for i := 0; i < len(cases) && len(rep.Samples) < 3; i += len(cases)/3 + 1 {
			if bc, ok := cases[i].(*BitsCase); ok {
				rep.AddSample(map[string]any{"program": clipStr(bc.whole(), 700), "verdict": outs[i].Status.String()})
			}
		}
		rep.Add(cases, outs)
	}}
}
