package main

import (
	"fmt"
	"os"
	"sort"
)

// runInstCases runs single-instruction cases, cross-checks the reference
// decoder against objdump and feeds the report.
func runInstCases(env *Env, rep *Report, cases []*InstCase) {
	env.InitBaseline()
	cs := make([]Case, len(cases))
	for i, c := range cases {
		cs[i] = c
	}
	outs := RunCases(env, cs)
	var qs []DecQ
	for _, o := range outs {
		qs = append(qs, o.Decodes...)
	}
	dis, nq, err := CrossCheck(env, qs)
	if err != nil {
		env.Assume("objdump cross-check of the reference decoder not performed: " + err.Error())
	} else {
		nd := 0
		var samples []string
		for i := range outs {
			for _, q := range outs[i].Decodes {
				if d, bad := dis[decqKey(q)]; bad {
					// the two decoders disagree about these bytes: the case cannot be judged
					if outs[i].Status == Violated || outs[i].Status == Held {
						outs[i] = Outcome{Status: Inconclusive, Cell: outs[i].Cell, Note: "oracle disagreement: " + d}
					}
					nd++
					if len(samples) < 10 {
						samples = append(samples, fmt.Sprintf("%s: %s", decqKey(q), d))
					}
					break
				}
			}
		}
		rep.Extra["oracle_queries_crosschecked"] = addInt(rep.Extra["oracle_queries_crosschecked"], nq)
		rep.Extra["oracle_disagreements"] = addInt(rep.Extra["oracle_disagreements"], len(dis))
		if len(samples) > 0 {
			rep.Extra["oracle_disagreement_samples"] = samples
		}
		if os.Getenv("VERIF_DUMP") != "" {
			keys := []string{}
			for k := range dis {
				keys = append(keys, k)
			}
			sort.Strings(keys)
			for _, k := range keys {
				fmt.Printf("XCHECK %s: %s\n", k, dis[k])
			}
		}
	}
	// rejected by mnemonic/form, mixed cells
	rej := map[string]int{}
	held := map[string]int{}
	viol := map[string]int{}
	for i, o := range outs {
		c := cases[i]
		switch o.Status {
		case Rejected:
			rej[c.X.Mn+" "+c.X.Form]++
		case Held:
			held[c.X.Cell]++
		case Violated:
			viol[c.X.Cell]++
		}
		if o.Status == Held && len(rep.Samples) < rep.sampleCap && i%((len(outs)/rep.sampleCap)+1) == 0 {
			rep.AddSample(map[string]any{"source": c.X.Source(), "cell": c.X.Cell, "verdict": "held", "decoded": fmt.Sprint(Decode(outsBytes(o), c.X.Mode))})
		}
	}
	mixed := 0
	for cell := range viol {
		if held[cell] > 0 {
			mixed++
		}
	}
	rep.Extra["rejected_by_form"] = mergeCount(rep.Extra["rejected_by_form"], rej)
	rep.Extra["mixed_cells"] = addInt(rep.Extra["mixed_cells"], mixed)
	rep.Extra["cells_with_violations"] = addInt(rep.Extra["cells_with_violations"], len(viol))
	rep.Add(cs, outs)
}

func outsBytes(o Outcome) []byte {
	if len(o.Decodes) > 0 {
		return o.Decodes[0].Bytes
	}
	return nil
}

func addInt(a any, n int) int {
	if v, ok := a.(int); ok {
		return v + n
	}
	return n
}

func mergeCount(a any, m map[string]int) map[string]int {
	if v, ok := a.(map[string]int); ok {
		for k, n := range m {
			v[k] += n
		}
		return v
	}
	return m
}

func init() {
	props["C01"] = propCheck{run: func(env *Env, rep *Report) {
		all := genC01()
		rep.Rule = "every case is `[BITS m]` + one instruction statement from the instance model (mnemonic x operand form x register x boundary immediate x memory shape x mode); " +
			"a case is non-trivial when gosk assembled it without any diagnostic and the reference decoder (cross-checked by objdump) judged the bytes; " +
			"distinct = distinct quantifier cells (mnemonic, form, mode, register class, immediate class, addressing class) with at least one such case"
		cases := all
		if env.Tier == "quick" {
			cases = sampleByCell(NewRand(env.Seed, "C01"), all, 2)
		} else {
			rep.Exhaust = true
		}
		rep.Extra["case_space_size"] = len(all)
		runInstCases(env, rep, cases)
	}}
}
