package main

import (
	"bufio"
	"fmt"
	"os"
	"path/filepath"
	"strconv"
	"strings"
)

// KNOWN_FINDINGS.txt
//
//	known: property=C04 id=F031 sig=<pattern> [tags=a,b] [mode=16|32] [input=<Go-quoted source>] [got=<hex>] :: what fails, where
//	fixed: property=C13 <commit> <what failed>
//
// A `known` entry absorbs violations whose signature matches its pattern; a
// `fixed` entry absorbs nothing.  The file is only ever read.
type Finding struct {
	Prop    string
	ID      string
	Pattern string
	Tags    []string
	Mode    int
	Input   string
	Got     string
	Text    string
	pat     [][]string // per field: alternatives (globs)
	Hits    int
	Sample  string
}

type Findings struct {
	Known []*Finding
	Fixed []string
	// Census: for properties whose signature space does not depend on the seed (the enumerated instruction spaces), the exact
	// signatures observed on the repaired tree in the thorough tier (KNOWN_SIGNATURES/<prop>.txt, committed, never written at
	// run time).  A signature is "known" only if a listed pattern matches it AND it is in the census: a pattern can then not
	// absorb a regression in a neighbouring cell that holds today.
	Census map[string]map[string]bool
}

// loadCensus reads KNOWN_SIGNATURES/<prop>.txt files next to the findings file.
func (fs *Findings) loadCensus(dir string) {
	ents, err := os.ReadDir(dir)
	if err != nil {
		return
	}
	fs.Census = map[string]map[string]bool{}
	for _, e := range ents {
		if !strings.HasSuffix(e.Name(), ".txt") {
			continue
		}
		b, err := os.ReadFile(filepath.Join(dir, e.Name()))
		if err != nil {
			continue
		}
		m := map[string]bool{}
		for _, l := range strings.Split(string(b), "\n") {
			if l != "" && !strings.HasPrefix(l, "#") {
				m[l] = true
			}
		}
		fs.Census[strings.TrimSuffix(e.Name(), ".txt")] = m
	}
}

// c07FixedTriples: the three-operand lists every run contains (the others are drawn at random and are outside the census)
var c07FixedTriples = map[string]bool{"r32,imm-small,imm-small": true, "r16,imm-small,r16": true, "r32,r32,imm-small": true, "r16,mem,imm-small": true, "acc16,imm-small,equ": true,
	"mem,r16,imm-small": true, "r32,imm-mid,r32": true, "acc32,equ,label": true}

// inCensusDomain: whether the census of the property is complete for signatures of this shape.
func inCensusDomain(prop, sig string) bool {
	if prop == "C07" {
		f := strings.Split(sig, "|")
		if len(f) < 4 {
			return true
		}
		i := strings.IndexByte(f[3], ' ')
		if i < 0 {
			return true
		}
		shape := f[3][i+1:]
		if strings.Count(shape, ",") >= 2 && !c07FixedTriples[shape] {
			return false
		}
	}
	return true
}

func LoadFindings(path string) (*Findings, error) {
	f, err := os.Open(path)
	if err != nil {
		if os.IsNotExist(err) {
			return &Findings{}, nil
		}
		return nil, err
	}
	defer f.Close()
	fs := &Findings{}
	sc := bufio.NewScanner(f)
	sc.Buffer(make([]byte, 1<<20), 1<<20)
	ln := 0
	for sc.Scan() {
		ln++
		line := strings.TrimSpace(sc.Text())
		if line == "" || strings.HasPrefix(line, "#") {
			continue
		}
		switch {
		case strings.HasPrefix(line, "fixed:"):
			fs.Fixed = append(fs.Fixed, strings.TrimSpace(strings.TrimPrefix(line, "fixed:")))
		case strings.HasPrefix(line, "known:"):
			body := strings.TrimSpace(strings.TrimPrefix(line, "known:"))
			text := ""
			if i := strings.Index(body, " :: "); i >= 0 {
				text = strings.TrimSpace(body[i+4:])
				body = body[:i]
			}
			fd := &Finding{Text: text}
			for _, kv := range splitFields(body) {
				k, v, ok := strings.Cut(kv, "=")
				if !ok {
					return nil, fmt.Errorf("%s:%d: bad field %q", path, ln, kv)
				}
				switch k {
				case "property":
					fd.Prop = v
				case "id":
					fd.ID = v
				case "sig":
					if strings.HasPrefix(v, "\"") {
						u, err := strconv.Unquote(v)
						if err != nil {
							return nil, fmt.Errorf("%s:%d: sig: %v", path, ln, err)
						}
						v = u
					}
					fd.Pattern = v
				case "tags":
					fd.Tags = strings.Split(v, ",")
				case "mode":
					fd.Mode, _ = strconv.Atoi(v)
				case "input":
					s, err := strconv.Unquote(v)
					if err != nil {
						return nil, fmt.Errorf("%s:%d: input is not a Go-quoted string: %v", path, ln, err)
					}
					fd.Input = s
				case "got":
					fd.Got = v
				default:
					return nil, fmt.Errorf("%s:%d: unknown field %q", path, ln, k)
				}
			}
			if fd.Prop == "" || fd.ID == "" || fd.Pattern == "" {
				return nil, fmt.Errorf("%s:%d: known entry needs property, id and sig", path, ln)
			}
			fd.pat = compilePattern(fd.Pattern)
			fs.Known = append(fs.Known, fd)
		default:
			return nil, fmt.Errorf("%s:%d: line must start with known: or fixed:", path, ln)
		}
	}
	fs.loadCensus(filepath.Join(filepath.Dir(path), "KNOWN_SIGNATURES"))
	return fs, sc.Err()
}

// splitFields splits on spaces, keeping Go-quoted strings intact.
func splitFields(s string) []string {
	var out []string
	cur := strings.Builder{}
	inq := false
	for i := 0; i < len(s); i++ {
		c := s[i]
		if inq {
			cur.WriteByte(c)
			if c == '\\' && i+1 < len(s) {
				i++
				cur.WriteByte(s[i])
			} else if c == '"' {
				inq = false
			}
			continue
		}
		if c == '"' {
			inq = true
			cur.WriteByte(c)
			continue
		}
		if c == ' ' || c == '\t' {
			if cur.Len() > 0 {
				out = append(out, cur.String())
				cur.Reset()
			}
			continue
		}
		cur.WriteByte(c)
	}
	if cur.Len() > 0 {
		out = append(out, cur.String())
	}
	return out
}

// A pattern is `|`-separated fields; a field is a glob (`*` matches any run of
// characters) or a `{a,b,c}` set of globs.  The number of fields must equal
// the signature's unless the pattern ends in the field `**`.
func compilePattern(p string) [][]string {
	var out [][]string
	for _, f := range strings.Split(p, "|") {
		out = append(out, expandBraces(f))
	}
	return out
}

// expandBraces: "a{b,c}d{e,f}" -> abde abdf acde acdf
func expandBraces(f string) []string {
	i := strings.IndexByte(f, '{')
	if i < 0 {
		return []string{f}
	}
	j := strings.IndexByte(f[i:], '}')
	if j < 0 {
		return []string{f}
	}
	j += i
	var out []string
	for _, alt := range strings.Split(f[i+1:j], ",") {
		for _, rest := range expandBraces(f[j+1:]) {
			out = append(out, f[:i]+alt+rest)
		}
	}
	return out
}

func globMatch(pat, s string) bool {
	if !strings.Contains(pat, "*") {
		return pat == s
	}
	parts := strings.Split(pat, "*")
	if !strings.HasPrefix(s, parts[0]) {
		return false
	}
	s = s[len(parts[0]):]
	for i := 1; i < len(parts)-1; i++ {
		j := strings.Index(s, parts[i])
		if j < 0 {
			return false
		}
		s = s[j+len(parts[i]):]
	}
	return strings.HasSuffix(s, parts[len(parts)-1])
}

func (f *Finding) Match(sig string) bool {
	fields := strings.Split(sig, "|")
	pat := f.pat
	open := false
	if n := len(pat); n > 0 && len(pat[n-1]) == 1 && pat[n-1][0] == "**" {
		pat = pat[:n-1]
		open = true
	}
	if len(fields) < len(pat) || (!open && len(fields) != len(pat)) {
		return false
	}
	for i, alts := range pat {
		ok := false
		for _, a := range alts {
			if globMatch(a, fields[i]) {
				ok = true
				break
			}
		}
		if !ok {
			return false
		}
	}
	return true
}

func (fs *Findings) MatchKnown(prop, sig string) *Finding {
	if c, ok := fs.Census[prop]; ok && !c[sig] && inCensusDomain(prop, sig) {
		return nil
	}
	for _, f := range fs.Known {
		if f.Prop == prop && f.Match(sig) {
			return f
		}
	}
	return nil
}

func (fs *Findings) ForProp(prop string) []*Finding {
	var out []*Finding
	for _, f := range fs.Known {
		if f.Prop == prop {
			out = append(out, f)
		}
	}
	return out
}

// HasTag: some OPEN known entry (of any property) carries this tag.  Used to
// keep constructs with a listed defect out of the pool of statement kinds that
// composite-program properties draw from.
func (fs *Findings) HasTag(tag string) bool {
	for _, f := range fs.Known {
		for _, t := range f.Tags {
			if t == tag {
				return true
			}
		}
	}
	return false
}

func findingsPath(verif string) string { return filepath.Join(verif, "KNOWN_FINDINGS.txt") }
