package main

import (
	"fmt"
	"strings"
)

// C05: data directives emit exactly their operand values.

var c05Strings = []string{"", "a", "hello", "a;b", "x#y", "p,q", " lead", "trail ", "it's", "semi; colon, comma # hash", "[BX]", "MOV AX,1", "0x41", "ロード", "é", "日本語 text; ok", "€",
	"'quoted'", "''", "'", "'a", "a'", "a'b'c", "'x';'y'"}

func strItem(s string) DItem { return DItem{Kind: "str", Str: s, Text: goQuoteForNask(s)} }

// the same bytes between apostrophes (for strings that contain none)
func strItemSingle(s string) DItem { return DItem{Kind: "str", Str: s, Text: "'" + s + "'"} }

// NASK strings have no escapes we rely on: only plain characters are used, except a literal tab
func goQuoteForNask(s string) string {
	out := "\""
	for _, c := range s {
		if c == '\t' {
			out += "\\t"
		} else {
			out += string(c)
		}
	}
	return out + "\""
}

func c05Number(r *Rand, w int) int64 {
	bits := 8 * w
	switch r.Intn(5) {
	case 0: // boundary of the lane
		m := int64(1) << uint(bits)
		return Pick(r, []int64{0, 1, m/2 - 1, m / 2, m - 1, -1, -(m / 2), -(m/2 - 1)})
	case 1: // out of range: truncated to the low bits
		m := int64(1) << uint(bits)
		return Pick(r, []int64{m, m + 1, 2*m - 1, -m, -(m + 1), -(m/2 + 1), 3*m + 5, 0x123456789, -0x123456789, 0x100000000, 0x7fffffffffff})
	case 2:
		return int64(r.Range(-300, 300))
	}
	return poolImm(r, bits)
}

// c05Data: one DB/DW/DD statement with 1..64 operands
func c05Data(r *Rand, labels []string, allowDollar bool) PStmt {
	w := Pick(r, []int{1, 1, 2, 4})
	n := r.Range(1, 8)
	if r.Chance(1, 6) {
		n = r.Range(9, 64)
	}
	s := PStmt{K: "data", W: w, Tag: map[int]string{1: "DB", 2: "DW", 4: "DD"}[w]}
	for i := 0; i < n; i++ {
		switch x := r.Intn(12); {
		case x < 6:
			it := numItem(c05Number(r, w), r.Intn(3))
			if r.Chance(1, 5) {
				// leading zeros: still the same decimal / hexadecimal number
				z := Pick(r, []string{"0", "00", "000"})
				switch {
				case strings.HasPrefix(it.Text, "-"):
					it.Text = "-" + z + it.Text[1:]
				case strings.HasPrefix(it.Text, "0x"):
					it.Text = "0x" + z + it.Text[2:]
				default:
					it.Text = z + it.Text
				}
			}
			s.Items = append(s.Items, it)
		case x < 8:
			e, v := genConstExpr(r, r.Range(1, 3), nil, nil)
			s.Items = append(s.Items, DItem{Kind: "num", Num: v, Text: e.Render(r.Intn(3))})
		case x < 10 && w == 1:
			str := Pick(r, c05Strings)
			if !strings.ContainsAny(str, "'\t") && r.Chance(1, 40) {
				s.Items = append(s.Items, strItemSingle(str)) // the other delimiter (gosk refuses it: finding F501)
			} else {
				s.Items = append(s.Items, strItem(str))
			}
		case x == 10 && w > 1 && allowDollar && r.Chance(1, 30):
			// the label that ends every program: defined further down (gosk refuses such an element: finding F502)
			s.Items = append(s.Items, DItem{Kind: "label", Label: "zend", Text: "zend"})
		case x == 10 && len(labels) > 0:
			l := Pick(r, labels)
			s.Items = append(s.Items, DItem{Kind: "label", Label: l, Text: l})
		case x == 11 && allowDollar:
			s.Items = append(s.Items, DItem{Kind: "dollar", Text: "$"})
		default:
			s.Items = append(s.Items, numItem(c05Number(r, w), r.Intn(3)))
		}
	}
	return s
}

func c05Program(r *Rand) *ProgCase {
	p := Prog{}
	org := Pick(r, []int64{-1, 0, 0x7c00, 0xc200, 0x280000, 0xfff0})
	if org >= 0 {
		p.Stmts = append(p.Stmts, PStmt{K: "org", N: org})
	}
	var labels []string
	n := r.Range(2, 14)
	silent := []func(i int) PStmt{
		func(i int) PStmt {
			return PStmt{K: "equ", Label: fmt.Sprintf("E%d", i), Text: spellInt(int64(r.Intn(1000)), r.Intn(2)), Tag: "EQU"}
		},
		func(i int) PStmt { return PStmt{K: "global", Text: fmt.Sprintf("_g%d", i), Tag: "GLOBAL"} },
		func(i int) PStmt { return PStmt{K: "extern", Text: fmt.Sprintf("_x%d", i), Tag: "EXTERN"} },
		func(i int) PStmt { return PStmt{K: "raw", Text: "[INSTRSET \"i486p\"]", Tag: "bracket"} },
		func(i int) PStmt { return PStmt{K: "raw", Text: "[FILE \"a.nas\"]", Tag: "bracket"} },
		func(i int) PStmt { return PStmt{K: "raw", Text: "[BITS 16]", Tag: "bracket"} },
		func(i int) PStmt {
			return PStmt{K: "raw", Text: Pick(r, []string{"[SECTION .text]", "[SECTION .data]", "[SECTION .bss]", "[OPTIMIZE 1]"}), Tag: "bracket"}
		},
		func(i int) PStmt { return PStmt{K: "raw", Text: "; only a comment", Tag: "comment"} },
		func(i int) PStmt { return PStmt{K: "raw", Text: "", Tag: "blank"} },
	}
	for i := 0; i < n; i++ {
		switch x := r.Intn(12); {
		case x < 5:
			p.Stmts = append(p.Stmts, c05Data(r, labels, true))
		case x == 5:
			p.Stmts = append(p.Stmts, PStmt{K: "resb", N: int64(Pick(r, []int{0, 1, 2, 7, 16, 100, 511})), Tag: "RESB"})
		case x == 6:
			p.Stmts = append(p.Stmts, PStmt{K: "alignb", N: int64(Pick(r, []int{1, 2, 4, 8, 16, 32, 64})), Tag: "ALIGNB"})
		case x == 7 || x == 8:
			p.Stmts = append(p.Stmts, silent[r.Intn(len(silent))](i))
		default:
			l := fmt.Sprintf("L%d", len(labels))
			labels = append(labels, l)
			// the location counter must have advanced by exactly the bytes emitted: label + DW label
			p.Stmts = append(p.Stmts, PStmt{K: "label", Label: l}, PStmt{K: "data", W: 2, Tag: "loc-probe", Items: []DItem{{Kind: "label", Label: l, Text: l}}})
		}
	}
	if org >= 0 && r.Chance(1, 3) {
		p.Stmts = append(p.Stmts, PStmt{K: "resbto", N: org + int64(Pick(r, []int{0x1fe, 0x400, 0x1000})), Tag: "RESB-to"})
	}
	p.Stmts = append(p.Stmts, PStmt{K: "label", Label: "zend"}, PStmt{K: "data", W: 4, Tag: "loc-probe", Items: []DItem{{Kind: "label", Label: "zend", Text: "zend"}}})
	return &ProgCase{P: p, Prop: "C05", Ctx: "mixed", Cell_: fmt.Sprintf("mixed org=%d n=%d", org, n/4)}
}

// exhaustive: ALIGNB n at every residue of the current address
func c05Align(org int64, n, k int, fillKind int) *ProgCase {
	p := Prog{}
	if org >= 0 {
		p.Stmts = append(p.Stmts, PStmt{K: "org", N: org})
	}
	if k > 0 {
		if fillKind == 0 {
			p.Stmts = append(p.Stmts, PStmt{K: "resb", N: int64(k)})
		} else {
			s := PStmt{K: "data", W: 1}
			for i := 0; i < k; i++ {
				s.Items = append(s.Items, numItem(int64(0x10+i%200), 1))
			}
			p.Stmts = append(p.Stmts, s)
		}
	}
	p.Stmts = append(p.Stmts, PStmt{K: "alignb", N: int64(n), Tag: "ALIGNB"},
		PStmt{K: "label", Label: "lab"},
		PStmt{K: "data", W: 1, Items: []DItem{numItem(0xaa, 1)}},
		PStmt{K: "data", W: 2, Tag: "loc-probe", Items: []DItem{{Kind: "label", Label: "lab", Text: "lab"}, {Kind: "dollar", Text: "$"}}})
	return &ProgCase{P: p, Prop: "C05", Ctx: fmt.Sprintf("alignb n=%d", n), Cell_: fmt.Sprintf("alignb org=%d n=%d k=%d", org, n, k)}
}

// programs that consist only of directives which emit nothing
func c05Silent(r *Rand) *ProgCase {
	p := Prog{}
	n := r.Range(1, 10)
	for i := 0; i < n; i++ {
		switch r.Intn(8) {
		case 0:
			p.Stmts = append(p.Stmts, PStmt{K: "org", N: int64(Pick(r, []int{0, 0x7c00, 0xc200}))})
		case 1:
			p.Stmts = append(p.Stmts, PStmt{K: "label", Label: fmt.Sprintf("s%d", i)})
		case 2:
			p.Stmts = append(p.Stmts, PStmt{K: "equ", Label: fmt.Sprintf("Q%d", i), Text: spellInt(int64(r.Intn(70000)), r.Intn(2)), Tag: "EQU"})
		case 3:
			p.Stmts = append(p.Stmts, PStmt{K: "global", Text: fmt.Sprintf("_g%d, _h%d", i, i), Tag: "GLOBAL"})
		case 4:
			p.Stmts = append(p.Stmts, PStmt{K: "extern", Text: fmt.Sprintf("_x%d", i), Tag: "EXTERN"})
		case 5:
			p.Stmts = append(p.Stmts, PStmt{K: "raw", Text: Pick(r, []string{"[BITS 32]", "[BITS 16]", "[INSTRSET \"i486p\"]", "[FILE \"x.nas\"]", "[SECTION .text]"}), Tag: "bracket"})
		default:
			p.Stmts = append(p.Stmts, PStmt{K: "raw", Text: Pick(r, []string{"", "; comment", "# comment"}), Tag: "layout"})
		}
	}
	return &ProgCase{P: p, Prop: "C05", Ctx: "silent", Cell_: fmt.Sprintf("silent n=%d", n)}
}

func init() {
	props["C05"] = propCheck{run: func(env *Env, rep *Report) {
		env.InitBaseline()
		r := NewRand(env.Seed, "C05")
		var cases []Case
		// ALIGNB: every power of two at every residue, two fillers, three origins (exhaustive in both tiers: 3*2*127 programs)
		for _, org := range []int64{-1, 0, 0x7c00, 0x7c04, 0x0ff1} {
			for _, n := range []int{1, 2, 4, 8, 16, 32, 64} {
				for k := 0; k < n; k++ {
					cases = append(cases, c05Align(org, n, k, 0), c05Align(org, n, k, 1))
				}
			}
		}
		nmix, nsil := 3000, 300
		if env.Tier == "thorough" {
			nmix, nsil = 90000, 5000
		}
		for i := 0; i < nmix; i++ {
			cases = append(cases, c05Program(r))
		}
		for i := 0; i < nsil; i++ {
			cases = append(cases, c05Silent(r))
		}
		rep.Rule = "(a) exhaustive: ALIGNB n for n in {1..64 powers of two} at every residue 0..n-1 of the current address, reached by RESB and by DB fillers, under no ORG / ORG 0 / 0x7c00 / 0x7c04 / 0x0ff1; " +
			"(b) seeded programs of DB/DW/DD lists of length 1..64 mixing numbers (negative, lane boundaries, out of range), constant expressions, strings (empty; containing , ; # spaces and the other quote), previously defined labels and $, RESB constants, RESB addr-$, ALIGNB, interleaved with EQU/GLOBAL/EXTERN/[..]/comment/blank lines, with `label: DW label` probes after directives; " +
			"(c) programs made only of directives that must emit nothing; oracle: an independent byte model (little-endian low 8/16/32 bits via math/big, strings byte for byte, n zeros, fewest zeros to the next multiple) compared byte-exactly through the walker; distinct = (family, origin, size bucket / n / k) cells"
		outs := RunCases(env, cases)
		for i := 0; i < len(cases) && len(rep.Samples) < 5; i += len(cases)/5 + 1 {
			rep.AddSample(map[string]any{"program": cases[i].(*ProgCase).P.Source(), "verdict": outs[i].Status.String()})
		}
		rep.Add(cases, outs)
	}}
}
