package main

import (
	"os"
	"path/filepath"
	"regexp"
	"sort"
	"strings"
)

// renameIdents replaces whole identifiers outside string literals and comments.
func renameIdents(src string, m map[string]string) string {
	var b strings.Builder
	isStart := func(c byte) bool {
		return c == '_' || c == '$' || c == '.' || (c >= 'a' && c <= 'z') || (c >= 'A' && c <= 'Z')
	}
	isCont := func(c byte) bool { return isStart(c) || (c >= '0' && c <= '9') }
	i := 0
	for i < len(src) {
		c := src[i]
		switch {
		case c == '"':
			j := i + 1
			for j < len(src) && src[j] != '"' && src[j] != '\n' {
				j++
			}
			if j < len(src) {
				j++
			}
			b.WriteString(src[i:j])
			i = j
		case c == ';' || c == '#':
			j := i
			for j < len(src) && src[j] != '\n' && src[j] != '\r' {
				j++
			}
			b.WriteString(src[i:j])
			i = j
		case isStart(c) && (i == 0 || !isCont(src[i-1])):
			j := i + 1
			for j < len(src) && isCont(src[j]) {
				j++
			}
			w := src[i:j]
			if n, ok := m[w]; ok {
				b.WriteString(n)
			} else {
				b.WriteString(w)
			}
			i = j
		default:
			b.WriteByte(c)
			i++
		}
	}
	return b.String()
}

// reservedPrefixes reads, from the tree under test, the words that an
// identifier must not START with: both grammars test !Opcode / !RegisterName /
// !ReservedWord as prefixes.
func reservedPrefixes(repo string) []string {
	set := map[string]bool{}
	re := regexp.MustCompile(`"([A-Z][A-Z0-9]*)"`)
	for _, f := range []string{"internal/gen/grammar.peg", "pkg/ng_operand/operand_grammar.peg"} {
		b, err := os.ReadFile(filepath.Join(repo, f))
		if err != nil {
			continue
		}
		// only rule bodies made of quoted upper-case words matter; collecting all such words over-approximates
		for _, m := range re.FindAllStringSubmatch(string(b), -1) {
			set[m[1]] = true
		}
	}
	for _, w := range []string{"EQU", "GLOBAL", "EXTERN", "BYTE", "WORD", "DWORD", "SHORT", "NEAR", "FAR", "PTR"} {
		set[w] = true
	}
	var out []string
	for w := range set {
		out = append(out, w)
	}
	sort.Strings(out)
	return out
}

// sourceNames: identifiers the implementation itself spells out in string literals -- map keys, placeholder and helper-label
// names, template fields -- read from the non-test Go files of the tree.  A literal with a verb (`"tmp_%d"`) yields the names the
// format would produce for small arguments.  They are ordinary identifiers to an assembler user.
func sourceNames(repo string, reserved []string) (fromFormats, plain []string) {
	lit := regexp.MustCompile("\"([^\"\\\\\n]{1,40})\"")
	ident := regexp.MustCompile(`^[A-Za-z_][A-Za-z0-9_]{0,39}$`)
	seenF := map[string]bool{}
	seenP := seenF // one set: a name is listed once
	for _, dir := range []string{"internal", "pkg", "cmd"} {
		filepath.Walk(filepath.Join(repo, dir), func(path string, info os.FileInfo, err error) error {
			if err != nil || info.IsDir() || !strings.HasSuffix(path, ".go") || strings.HasSuffix(path, "_test.go") || info.Size() > 400000 {
				return nil
			}
			b, err := os.ReadFile(path)
			if err != nil {
				return nil
			}
			for _, m := range lit.FindAllStringSubmatch(string(b), -1) {
				t := strings.TrimSuffix(strings.TrimPrefix(strings.TrimSpace(m[1]), "{{."), "}}")
				if strings.Contains(t, "%") {
					for _, arg := range []string{"0", "1", "2", "x"} {
						u := t
						for _, v := range []string{"%d", "%v", "%s", "%x", "%03d", "%02d", "%04d"} {
							u = strings.ReplaceAll(u, v, arg)
						}
						u = strings.TrimSuffix(strings.TrimPrefix(u, "{{."), "}}")
						if ident.MatchString(u) && !hasReservedPrefix(u, reserved) && !seenF[u] {
							seenF[u] = true
							fromFormats = append(fromFormats, u)
						}
					}
					continue
				}
				if ident.MatchString(t) && !hasReservedPrefix(t, reserved) && !seenP[t] {
					seenP[t] = true
					plain = append(plain, t)
				}
			}
			return nil
		})
	}
	sort.Strings(fromFormats)
	sort.Strings(plain)
	return
}

func hasReservedPrefix(name string, reserved []string) bool {
	for _, w := range reserved {
		if strings.HasPrefix(name, w) {
			return true
		}
	}
	return false
}

const identChars = "abcdefghijklmnopqrstuvwxyzABCDEFGHIJKLMNOPQRSTUVWXYZ0123456789_"

// genIdent: an identifier over [A-Za-z_][A-Za-z0-9_]* of the given length
// without a reserved prefix and not in `taken`.
func genIdent(r *Rand, n int, reserved []string, taken map[string]bool) string {
	for {
		b := make([]byte, n)
		b[0] = identChars[r.Intn(52)]
		if r.Chance(1, 3) {
			b[0] = '_'
		}
		for i := 1; i < n; i++ {
			b[i] = identChars[r.Intn(len(identChars))]
		}
		s := string(b)
		if !taken[s] && !hasReservedPrefix(s, reserved) {
			taken[s] = true
			return s
		}
		if n == 1 && len(taken) > 40 {
			n = 2
		}
	}
}
