package main

import (
	"fmt"
	"strconv"
	"strings"
)

// parseExprText: the usual grammar (* / % over + -, left to right, parentheses,
// decimal / 0x literals, a minus directly before a literal, names), for
// hand-written expression shapes whose value the evaluator then supplies.
func parseExprText(s string) *Expr {
	p := &exprParser{s: strings.ReplaceAll(s, " ", "")}
	e := p.sum()
	if p.i != len(p.s) {
		panic(fmt.Sprintf("parseExprText(%q): stopped at %d", s, p.i))
	}
	return e
}

type exprParser struct {
	s string
	i int
}

func (p *exprParser) peek() byte {
	if p.i < len(p.s) {
		return p.s[p.i]
	}
	return 0
}

func (p *exprParser) sum() *Expr {
	l := p.product()
	for p.peek() == '+' || p.peek() == '-' {
		op := string(p.s[p.i])
		p.i++
		l = &Expr{Op: op, L: l, R: p.product()}
	}
	return l
}

func (p *exprParser) product() *Expr {
	l := p.atom()
	for p.peek() == '*' || p.peek() == '/' || p.peek() == '%' {
		op := string(p.s[p.i])
		p.i++
		l = &Expr{Op: op, L: l, R: p.atom()}
	}
	return l
}

func (p *exprParser) atom() *Expr {
	if p.peek() == '(' {
		p.i++
		e := p.sum()
		if p.peek() != ')' {
			panic("parseExprText: ) expected in " + p.s)
		}
		p.i++
		e.Paren = true
		return e
	}
	j := p.i
	if p.peek() == '-' {
		p.i++
	}
	for p.i < len(p.s) && (p.s[p.i] == '_' || p.s[p.i] == '$' || (p.s[p.i] >= '0' && p.s[p.i] <= '9') || (p.s[p.i] >= 'a' && p.s[p.i] <= 'z') || (p.s[p.i] >= 'A' && p.s[p.i] <= 'Z')) {
		p.i++
	}
	t := p.s[j:p.i]
	if t == "" || t == "-" {
		panic("parseExprText: operand expected in " + p.s)
	}
	c := t[0]
	if c == '-' || (c >= '0' && c <= '9') {
		v, err := strconv.ParseInt(t, 0, 64)
		if err != nil {
			panic("parseExprText: " + err.Error())
		}
		return &Expr{Val: v, Hex: strings.HasPrefix(t, "0x")}
	}
	return &Expr{Name: t}
}
