package main

import (
	"bytes"
	"encoding/hex"
	"fmt"
	"os"
	"path/filepath"
	"regexp"
	"strings"
	"syscall"
)

// C19: command-line contract.
type CLICase struct {
	What     string   `json:"what"`      // args | same-as-api | comment-encoding | failing-run
	Src      []byte   `json:"src"`       // source file contents (nil: no source file is created)
	Args     []string `json:"args"`      // nil = [in.nas out.bin]
	Setup    string   `json:"setup"`     // "" | srcdir (source path is a directory) | outdir (output path is a directory) | nodir (output in a missing directory) | srcunder (source path below a regular file)
	Prefill  []byte   `json:"prefill"`   // destination contents before the run
	WantExit int      `json:"want_exit"` // -1 = any non-zero
	Ref      []byte   `json:"ref"`       // expected output bytes on success (nil = not compared)
	RefSrc   []byte   `json:"ref_src"`   // comment-encoding: the comment-free source whose image is the reference
	Cell_    string   `json:"cell"`
	pre      []CLIRun
}

func (c *CLICase) Kind() string { return "cli" }
func (c *CLICase) Reqs() []Req {
	if c.What == "same-as-api" {
		return []Req{{Src: c.Src}}
	}
	if c.What == "comment-encoding" {
		return []Req{{Src: c.RefSrc}}
	}
	return nil
}

func (c *CLICase) jobs() []CLIJob {
	j := CLIJob{Src: c.Src, Args: c.Args, Prefill: c.Prefill}
	switch c.Setup {
	case "srcdir":
		j.Src = nil
		j.Setup = func(dir string) { os.MkdirAll(filepath.Join(dir, "in.nas"), 0o755) }
	case "outdir":
		j.Setup = func(dir string) { os.MkdirAll(filepath.Join(dir, "out.bin"), 0o755) }
	case "srcunder":
		j.Setup = func(dir string) { os.WriteFile(filepath.Join(dir, "plain"), []byte("x"), 0o644) }
	case "same-file", "same-file-other-spelling":
		// the output path names the source file itself: the image replaces the source
		j.OutName = "in.nas"
		j.Setup = func(dir string) { os.MkdirAll(filepath.Join(dir, "sub"), 0o755) }
	case "out-symlink-to-source":
		j.Setup = func(dir string) { os.Symlink("in.nas", filepath.Join(dir, "out.bin")) }
	case "out-hardlink-to-source":
		j.Setup = func(dir string) { os.Link(filepath.Join(dir, "in.nas"), filepath.Join(dir, "out.bin")) }
	case "out-devnull":
		j.NoRead = true
	case "out-symlink-to-devnull":
		j.NoRead = true
		j.Setup = func(dir string) { os.Symlink("/dev/null", filepath.Join(dir, "out.bin")) }
	case "out-fifo":
		// the destination is a named pipe with a reader: what arrives at the reader is the image.  The read end is opened
		// non-blocking before the run and drained after the process has ended (the images are far below the pipe capacity), so
		// nothing here can wait for gosk.
		fd := -1
		j.Setup = func(dir string) {
			p := filepath.Join(dir, "out.bin")
			if syscall.Mkfifo(p, 0o644) == nil {
				fd, _ = syscall.Open(p, syscall.O_RDONLY|syscall.O_NONBLOCK, 0)
			}
		}
		j.Post = func(dir string) {
			if fd < 0 {
				return
			}
			var got []byte
			buf := make([]byte, 65536)
			for {
				n, err := syscall.Read(fd, buf)
				if n <= 0 || err != nil {
					break
				}
				got = append(got, buf[:n]...)
			}
			syscall.Close(fd)
			os.WriteFile(filepath.Join(dir, "fifo.got"), got, 0o644)
		}
		j.OutFrom = "fifo.got"
	case "odd-names":
		// copies of the source under names with blanks, non-ASCII characters, a leading dash, and in nested directories
		j.Setup = func(dir string) {
			b, _ := os.ReadFile(filepath.Join(dir, "in.nas"))
			os.MkdirAll(filepath.Join(dir, "a b", "ディレクトリ"), 0o755)
			for _, n := range []string{"my source.nas", "ソース.nas", "a b/ディレクトリ/s.nas", "-dash.nas", "in.nas.bak", "IN.NAS"} {
				os.WriteFile(filepath.Join(dir, n), b, 0o644)
			}
		}
	case "out-symlink-to-other":
		j.Setup = func(dir string) {
			os.WriteFile(filepath.Join(dir, "real.bin"), []byte("old contents, longer than the image"), 0o644)
			os.Symlink("real.bin", filepath.Join(dir, "out.bin"))
		}
	}
	return []CLIJob{j}
}

var rePos = regexp.MustCompile(`[0-9]+:[0-9]+`)

func (c *CLICase) Judge(rs []Res, env *Env) Outcome {
	o := Outcome{Cell: c.Cell_}
	runs := c.pre
	if runs == nil {
		if env.CLI == "" {
			o.Status, o.Note = Inconclusive, "CLI binary not built"
			return o
		}
		runs = env.RunCLI(c.jobs())
	}
	r := runs[0]
	fail := func(kind, detail string) Outcome {
		o.Status = Violated
		o.Viols = []Violation{{Sig: fmt.Sprintf("C19|%s|%s", c.What, kind), Detail: fmt.Sprintf("%s; argv %q setup=%q exit=%d signal=%q stdout=%q stderr=%q; source: %s", detail, r.Args, c.Setup, r.Exit, r.Signal, clipStr(r.Stdout, 300), clipStr(r.Stderr, 300), clipStr(printable(c.Src), 400))}}
		return o
	}
	if r.TimedOut {
		o.Status, o.Note = Inconclusive, "CLI run timed out (wall clock)"
		return o
	}
	switch c.What {
	case "args":
		if r.Signal != "" {
			return fail("crash", "the process was killed by a signal")
		}
		if c.WantExit >= 0 && r.Exit != c.WantExit {
			return fail(fmt.Sprintf("exit-%d-expected", c.WantExit), fmt.Sprintf("exit status %d, the contract says %d", r.Exit, c.WantExit))
		}
		if c.WantExit == 0 && c.Ref != nil && !bytes.Equal(r.Out, c.Ref) {
			return fail("output", fmt.Sprintf("exit 0 but the output file holds %s, expected %s", hex.EncodeToString(clip(r.Out, 40)), hex.EncodeToString(clip(c.Ref, 40))))
		}
	case "same-as-api":
		api := rs[0]
		if !api.OK() {
			// the in-process pipeline refused: the CLI must not report success with an image
			if r.Exit == 0 && api.ParseErr != "" {
				return fail("exit-0-on-parse-error", "the parser rejects this source but the CLI exits 0")
			}
			o.Status, o.Note = Rejected, "refused"
			return o
		}
		if r.Exit != 0 || r.Signal != "" {
			return fail("exit-nonzero", "the in-process API assembles this source but the CLI fails")
		}
		if !bytes.Equal(r.Out, api.Out) {
			return fail("output-differs", fmt.Sprintf("the output file (%d bytes) differs from what the in-process API produced (%d bytes) at offset %d", len(r.Out), len(api.Out), firstDiff(r.Out, api.Out)))
		}
	case "comment-encoding":
		api := rs[0]
		if !api.OK() {
			o.Status, o.Note = Rejected, "the comment-free form is refused"
			return o
		}
		if r.Exit != 0 || r.Signal != "" {
			return fail("exit-nonzero", "the comment-free form assembles but the commented source fails")
		}
		if !bytes.Equal(r.Out, api.Out) {
			return fail("output-differs", fmt.Sprintf("the commented source assembles to %s, its comment-free form to %s", hex.EncodeToString(clip(r.Out, 40)), hex.EncodeToString(clip(api.Out, 40))))
		}
	case "failing-run":
		if r.Exit == 0 && r.Signal == "" {
			o.Status, o.Note = Rejected, "the run did not fail"
			return o
		}
		if r.OutExist && len(r.Out) > 0 && !bytes.Equal(r.Out, c.Prefill) {
			return fail("partial-output", fmt.Sprintf("the run failed but left %d bytes in the destination (%s...) which are neither its previous contents nor empty", len(r.Out), hex.EncodeToString(clip(r.Out, 24))))
		}
		if c.WantExit == -2 { // parse error: message with a position
			if !rePos.MatchString(r.Stdout + r.Stderr) {
				return fail("no-position", "a parse failure must print a line:column position")
			}
		}
	}
	o.Status = Held
	return o
}

func init() { registerKind("cli", func() Case { return &CLICase{} }) }

// Shift_JIS comment material
var sjisChunks = [][]byte{
	{0x83, 0x5c},                         // ソ  (trail byte 0x5c)
	{0x95, 0x5c},                         // 表
	{0x94, 0x5c},                         // 能
	{0x8f, 0x5c},                         // 十
	{0x97, 0x5c},                         // 予
	{0x83, 0x7c},                         // ポ  (trail byte 0x7c)
	{0x82, 0xa0, 0x82, 0xa2},             // あい
	{0xb1, 0xb2, 0xb3, 0xdf},             // half-width katakana
	{0x93, 0xfa, 0x96, 0x7b, 0x8c, 0xea}, // 日本語
	{0x81, 0x40},                         // ideographic space
	{0x88, 0xea, 0x97, 0x97, 0x95, 0x5c}, // 一覧表
}

func sjisComment(r *Rand) []byte {
	var b []byte
	for n := r.Range(1, 6); n > 0; n-- {
		switch r.Intn(4) {
		case 0:
			b = append(b, []byte(Pick(r, []string{" ", "abc ", "MOV AX,1 ", "; ", "# ", "\"", "'"}))...)
		case 1:
			// a random lead/trail pair
			lead := byte(Pick(r, []int{0x81, 0x88, 0x89, 0x8a, 0x90, 0x95, 0x9f, 0xe0, 0xe5, 0xea}))
			trail := byte(r.Range(0x40, 0xfc))
			if trail == 0x7f {
				trail = 0x80
			}
			b = append(b, lead, trail)
		default:
			b = append(b, Pick(r, sjisChunks)...)
		}
	}
	return b
}

var utf8Comments = []string{"日本語のコメント", "ソ表能十予ポ", "ｱｲｳｴｵ", "émoji 😀 ok", "一覧表", "コメント ; # , \" '", "한국어 中文"}

func commented(r *Rand, src string, sjis bool) []byte {
	lines := strings.Split(strings.TrimSuffix(src, "\n"), "\n")
	var out []byte
	for _, l := range lines {
		if r.Chance(1, 4) {
			out = append(out, Pick(r, []string{";", "#", " ; ", "\t# "})...)
			if sjis {
				out = append(out, sjisComment(r)...)
			} else {
				out = append(out, Pick(r, utf8Comments)...)
			}
			out = append(out, '\n')
		}
		out = append(out, l...)
		if r.Chance(1, 2) {
			out = append(out, Pick(r, []string{";", " ;", "\t#", " ; x "})...)
			if sjis {
				out = append(out, sjisComment(r)...)
			} else {
				out = append(out, Pick(r, utf8Comments)...)
			}
		}
		out = append(out, '\n')
	}
	return out
}

func init() {
	props["C19"] = propCheck{needCLI: true, run: func(env *Env, rep *Report) {
		env.InitBaseline()
		r := NewRand(env.Seed, "C19")
		good := []byte("\tORG 0x7c00\n\tMOV AX,0x1234\nfin:\n\tHLT\n\tJMP fin\n")
		goodImg := []byte{0xb8, 0x34, 0x12, 0xf4, 0xeb, 0xfd}
		var cases []*CLICase
		add := func(c *CLICase) { cases = append(cases, c) }
		// --- argument vectors of length 0..4
		add(&CLICase{What: "args", Args: []string{}, WantExit: 16, Cell_: "argv0"})
		add(&CLICase{What: "args", Src: good, Args: []string{"in.nas"}, WantExit: 16, Cell_: "argv1 source-only"})
		add(&CLICase{What: "args", Args: []string{"missing.nas"}, WantExit: 16, Cell_: "argv1 missing"})
		add(&CLICase{What: "args", Src: good, Args: []string{"in.nas", "out.bin"}, WantExit: 0, Ref: goodImg, Cell_: "argv2 ok"})
		add(&CLICase{What: "args", Src: good, Args: []string{"in.nas", "out.bin", "list.lst"}, WantExit: 0, Ref: goodImg, Cell_: "argv3 listfile"})
		add(&CLICase{What: "args", Src: good, Args: []string{"in.nas", "out.bin", "list.lst", "extra"}, WantExit: 0, Ref: goodImg, Cell_: "argv4 extra"})
		add(&CLICase{What: "args", Args: []string{"missing.nas", "out.bin"}, WantExit: 17, Cell_: "argv2 missing-source"})
		add(&CLICase{What: "args", Args: []string{"missing.nas", "out.bin", "l.lst"}, WantExit: 17, Cell_: "argv3 missing-source"})
		add(&CLICase{What: "args", Setup: "srcdir", Args: []string{"in.nas", "out.bin"}, WantExit: 17, Cell_: "argv2 source-is-directory"})
		add(&CLICase{What: "args", Setup: "srcunder", Args: []string{"plain/in.nas", "out.bin"}, WantExit: 17, Cell_: "argv2 source-below-a-file"})
		add(&CLICase{What: "args", Src: good, Args: []string{"in.nas", "nodir/out.bin"}, WantExit: 17, Cell_: "argv2 output-in-missing-directory"})
		add(&CLICase{What: "args", Src: good, Setup: "outdir", Args: []string{"in.nas", "out.bin"}, WantExit: 17, Cell_: "argv2 output-is-directory"})
		add(&CLICase{What: "args", Src: good, Args: []string{"in.nas", ""}, WantExit: 17, Cell_: "argv2 empty-output-name"})
		add(&CLICase{What: "args", Src: good, Args: []string{"", "out.bin"}, WantExit: 17, Cell_: "argv2 empty-source-name"})
		add(&CLICase{What: "args", Src: good, Args: []string{"in.nas", "out.bin"}, Prefill: bytes.Repeat([]byte{0xaa}, 5000), WantExit: 0, Ref: goodImg, Cell_: "argv2 destination-prefilled"})
		// the destination already holds something related to the new image: the same bytes, the image followed by a stale tail,
		// the image twice, all but its last byte, one changed byte
		flip := append([]byte{}, goodImg...)
		flip[len(flip)/2] ^= 0xff
		for _, pf := range []struct {
			name string
			pre  []byte
		}{{"same-content", goodImg}, {"image-plus-stale-tail", append(append([]byte{}, goodImg...), []byte("STALE TAIL")...)},
			{"image-twice", append(append([]byte{}, goodImg...), goodImg...)}, {"image-minus-last-byte", goodImg[:len(goodImg)-1]}, {"one-byte-differs", flip}, {"empty-file", []byte{}}} {
			add(&CLICase{What: "args", Src: good, Args: []string{"in.nas", "out.bin"}, Prefill: pf.pre, WantExit: 0, Ref: goodImg, Cell_: "argv2 destination-holds " + pf.name})
		}
		// source and output related through the file system
		add(&CLICase{What: "args", Src: good, Setup: "same-file", Args: []string{"in.nas", "in.nas"}, WantExit: 0, Ref: goodImg, Cell_: "argv2 output-is-the-source"})
		add(&CLICase{What: "args", Src: good, Setup: "same-file-other-spelling", Args: []string{"in.nas", "./sub/../in.nas"}, WantExit: 0, Ref: goodImg, Cell_: "argv2 output-is-the-source other-spelling"})
		add(&CLICase{What: "args", Src: good, Setup: "out-symlink-to-source", Args: []string{"in.nas", "out.bin"}, WantExit: 0, Ref: goodImg, Cell_: "argv2 output-symlink-to-source"})
		add(&CLICase{What: "args", Src: good, Setup: "out-hardlink-to-source", Args: []string{"in.nas", "out.bin"}, WantExit: 0, Ref: goodImg, Cell_: "argv2 output-hardlink-to-source"})
		add(&CLICase{What: "args", Src: good, Setup: "out-symlink-to-other", Args: []string{"in.nas", "out.bin"}, WantExit: 0, Ref: goodImg, Cell_: "argv2 output-symlink-to-file"})
		// destinations that exist and are not regular files
		add(&CLICase{What: "args", Src: good, Setup: "out-devnull", Args: []string{"in.nas", "/dev/null"}, WantExit: 0, Cell_: "argv2 output-is-dev-null"})
		add(&CLICase{What: "args", Src: good, Setup: "out-symlink-to-devnull", Args: []string{"in.nas", "out.bin"}, WantExit: 0, Cell_: "argv2 output-symlink-to-dev-null"})
		add(&CLICase{What: "args", Src: good, Setup: "out-fifo", Args: []string{"in.nas", "out.bin"}, WantExit: 0, Ref: goodImg, Cell_: "argv2 output-is-fifo"})
		add(&CLICase{What: "args", Src: good, Args: []string{"./in.nas", "./out.bin"}, WantExit: 0, Ref: goodImg, Cell_: "argv2 dot-slash-paths"})
		add(&CLICase{What: "args", Src: good, Args: []string{"-d", "in.nas", "out.bin"}, WantExit: 0, Ref: goodImg, Cell_: "argv3 -d"})
		add(&CLICase{What: "args", Args: []string{"-d"}, WantExit: 16, Cell_: "argv1 -d"})
		add(&CLICase{What: "args", Src: good, Args: []string{"-d", "in.nas"}, WantExit: 16, Cell_: "argv2 -d source-only"})
		add(&CLICase{What: "args", Src: []byte{}, Args: []string{"in.nas", "out.bin"}, WantExit: 0, Ref: []byte{}, Cell_: "argv2 empty-source"})
		// path spellings: blanks, non-ASCII names, nested directories with "..", a leading dash behind "./" or "--"
		for _, pv := range [][]string{{"my source.nas", "out put.bin"}, {"ソース.nas", "出力.bin"}, {"a b/ディレクトリ/s.nas", "a b/ディレクトリ/../o.bin"},
			{"./-dash.nas", "./-o.bin"}, {"--", "in.nas", "out.bin"}, {"-d", "--", "in.nas", "out.bin"}, {"in.nas.bak", "in.nas.bak.bin"}, {"IN.NAS", "OUT.BIN"},
			{"a b/../in.nas", "a b/ディレクトリ/out.bin"}, {"in.nas", "out.bin", "my list.lst"},
			// names that begin with a dash are ordinary names once the first file name has been seen (or after "--")
			{"in.nas", "-o.bin"}, {"--", "in.nas", "-p.bin"}, {"--", "-dash.nas", "-q.bin"}, {"in.nas", "q.bin", "-q.lst"}, {"in.nas", "out.bin", "-d"}, {"in.nas", "-d", "-v"},
			{"-d", "in.nas", "-v"}, {"in.nas", "--", "x"}, {"in.nas", "-"}, {"in.nas", "out.bin", "--", "-x"}} {
			add(&CLICase{What: "args", Src: good, Setup: "odd-names", Args: pv, WantExit: 0, Ref: goodImg, Cell_: "argv path-spelling " + strings.Join(pv, "|")})
		}
		// sources without a single statement
		for i, es := range []string{"; only a comment\n", "# hash comment\n; and another\n\n", "\n\n\n", "\t \n  \n", "; no newline at the end", "\r\n\r\n", ";コメント\n"} {
			// (whether the grammar accepts such a file is not C19's business: the command must agree with the in-process API)
			add(&CLICase{What: "same-as-api", Src: []byte(es), Prefill: []byte("OLD"), Cell_: fmt.Sprintf("same-as-api statement-free-source %d", i)})
		}
		// the same path scenarios with a source that selects the COFF writer (it creates the file on its own)
		coffSrc := []byte("[FORMAT \"WCOFF\"]\n[BITS 32]\n[FILE \"obj.nas\"]\n\tGLOBAL _io_hlt\n[SECTION .text]\n_io_hlt:\n\tHLT\n\tRET\n")
		add(&CLICase{What: "args", Src: coffSrc, Args: []string{"in.nas", "nodir/out.obj"}, WantExit: 17, Cell_: "argv2 coff output-in-missing-directory"})
		add(&CLICase{What: "args", Src: coffSrc, Setup: "outdir", Args: []string{"in.nas", "out.bin"}, WantExit: 17, Cell_: "argv2 coff output-is-directory"})
		add(&CLICase{What: "args", Src: coffSrc, Args: []string{"in.nas", ""}, WantExit: 17, Cell_: "argv2 coff empty-output-name"})
		add(&CLICase{What: "args", Src: coffSrc, Args: []string{"in.nas"}, WantExit: 16, Cell_: "argv1 coff source-only"})
		add(&CLICase{What: "args", Src: coffSrc, Setup: "out-devnull", Args: []string{"in.nas", "/dev/null"}, WantExit: 0, Cell_: "argv2 coff output-is-dev-null"})
		add(&CLICase{What: "args", Src: coffSrc, Setup: "out-fifo", Args: []string{"in.nas", "out.bin"}, WantExit: 0, Cell_: "argv2 coff output-is-fifo"})
		add(&CLICase{What: "same-as-api", Src: coffSrc, Prefill: bytes.Repeat([]byte{0x55}, 4000), Cell_: "same-as-api coff destination-prefilled"})
		add(&CLICase{What: "failing-run", Src: []byte("[FORMAT \"WCOFF\"]\n[BITS 32]\n\tGLOBAL _f\n_f:\n\tJMP {{\n"), Prefill: bytes.Repeat([]byte("OLD!"), 300), WantExit: -1, Cell_: "failing coff pass2-template-error prefilled"})
		// --- programs through the CLI versus the in-process API
		nprog := 120
		if env.Tier == "thorough" {
			nprog = 1500
		}
		reserved := reservedPrefixes(env.Repo)
		for i := 0; i < nprog; i++ {
			var src string
			kind := "flat"
			switch i % 5 {
			case 4:
				src = genCoffCase(r, "C09", reserved, false).source(true)
				kind = "coff"
			default:
				p, _ := genLabelled(r, Pick(r, []int{16, 32}), Pick(r, []int64{-1, 0x7c00}), genOpts{Equs: true, Jumps: true})
				src = p.Source()
			}
			// outside comments the text is kept ASCII: the CLI decodes its input as Shift_JIS first, so a UTF-8 string
			// operand reaches the parser as other characters than the ones the in-process reference is given
			src = asciiOnly(src)
			add(&CLICase{What: "same-as-api", Src: []byte(src), Cell_: "same-as-api " + kind})
			base := src
			add(&CLICase{What: "comment-encoding", Src: commented(r, base, true), RefSrc: []byte(base), Cell_: "comments shift_jis " + kind})
			if i%2 == 0 {
				add(&CLICase{What: "comment-encoding", Src: commented(r, base, false), RefSrc: []byte(base), Cell_: "comments utf-8 " + kind})
			}
		}
		for name, src := range loadCorpus(env) {
			add(&CLICase{What: "same-as-api", Src: []byte(src), Cell_: "same-as-api book " + name})
		}
		// every Shift_JIS chunk at the very end of a comment, before LF / CRLF, followed by code
		for _, ch := range sjisChunks {
			for _, eol := range []string{"\n", "\r\n"} {
				src := append([]byte("\tMOV AL,1 ; "), ch...)
				src = append(src, []byte(eol+"\tMOV BL,2"+eol+"; ")...)
				src = append(src, ch...)
				src = append(src, []byte(eol+"\tMOV CL,3"+eol+"\tHLT"+eol)...)
				add(&CLICase{What: "comment-encoding", Src: src, RefSrc: []byte("\tMOV AL,1\n\tMOV BL,2\n\tMOV CL,3\n\tHLT\n"), Cell_: fmt.Sprintf("comments shift_jis trail-at-eol %x", ch[len(ch)-1])})
			}
		}
		// sources that GROW a lot when decoded: half-width katakana (one Shift_JIS byte, three UTF-8 bytes) and lone lead bytes
		// (one byte, U+FFFD = three bytes) outnumbering everything else, so that the decoded text is almost three times the file
		for _, n := range []int{8, 20, 64, 300, 5000} {
			for k, fill := range [][]byte{{0xb1}, {0xca, 0xdd, 0xb6, 0xb8}, {0x81}, {0xb1, 0x81, 0xdf, 0xe0}} {
				src := []byte(";")
				for len(src) < n+1 {
					src = append(src, fill...)
				}
				src = append(src, []byte("\n\tMOV AL,1\n\tMOV BL,2\n;")...)
				for i := 0; i < n/4; i++ {
					src = append(src, fill...)
				}
				src = append(src, []byte("\n\tMOV CL,3\n\tHLT\n")...)
				add(&CLICase{What: "comment-encoding", Src: src, RefSrc: []byte("\tMOV AL,1\n\tMOV BL,2\n\tMOV CL,3\n\tHLT\n"), Cell_: fmt.Sprintf("comments shift_jis expanding n=%d fill=%d", n, k)})
			}
		}
		// sources longer than the window an encoding sniffer looks at (1 KiB, 4 KiB), whose beginning and end are in different
		// "apparent" encodings: Shift_JIS text that happens to be valid UTF-8 up front (half-width katakana pairs) and kanji further down,
		// a UTF-8 header followed by Shift_JIS comments, and the reverse
		{
			early := [][]byte{{0xca, 0xba, 0x20, 0xd6, 0xba, 0x20, 0xc3, 0xb7}, []byte("\xe6\x97\xa5\xe6\x9c\xac\xe8\xaa\x9e header"), {0x93, 0xfa, 0x96, 0x7b}, []byte("plain ascii")}
			late := [][]byte{{0x8f, 0x49, 0x97, 0xb9, 0x8f, 0x88, 0x97, 0x9d, 0x81, 0x69, 0x95, 0x5c, 0x8e, 0xa6, 0x81, 0x6a}, []byte("\xe7\xb5\x82\xe4\xba\x86"), {0xb1, 0xb2, 0xb3}, {0x83, 0x5c}}
			for ei, e := range early {
				for li, l := range late {
					for _, fill := range []int{70, 300} {
						var src, ref []byte
						src = append(src, "; "...)
						src = append(src, e...)
						src = append(src, '\n')
						for k := 0; k < fill; k++ {
							line := fmt.Sprintf("\tMOV AL,%d\n\tADD BX,2\n", k%200)
							src = append(src, line...)
							ref = append(ref, line...)
						}
						src = append(src, "\tHLT ; "...)
						src = append(src, l...)
						src = append(src, "\n\tNOP\n"...)
						ref = append(ref, "\tHLT\n\tNOP\n"...)
						add(&CLICase{What: "comment-encoding", Src: src, RefSrc: ref, Cell_: fmt.Sprintf("comments long-source early=%d late=%d lines=%d", ei, li, fill)})
					}
				}
			}
		}
		// --- failing runs never leave a partial image
		junk := bytes.Repeat([]byte("OLD!"), 300)
		for _, f := range []struct {
			src  string
			kind string
			want int
		}{
			{"\tMOV AX,1\n\tMOV AX,\n", "parse-error", -2},
			{"\tMOV AX,1\n\tFOO BAR BAZ\n", "parse-error", -2},
			{"\tDB 1,2,3\n\tJMP {{\n", "pass2-template-error", -1},
			{"\tDB 1,2,3\n\tJMP {{.nolabel.x}}\n", "pass2-template-error", -1},
			{"\tDB 1,2,3\n\tDB \"unterminated\n", "parse-error", -2},
			// the error at different places of the file: first line, last line with and without a final line end, CR LF ends, behind a
			// double-byte comment, in an object source
			{"\tMOV AX,\n\tMOV AX,1\n", "parse-error first-line", -2},
			{"\tMOV AX,1\n\tMOV BX,2\n\tMOV AX,", "parse-error last-line-no-newline", -2},
			{"\tMOV AX,1\n\tDB \"abc", "parse-error open-string-no-newline", -2},
			{"\tMOV AX,1\n\tMOV AX,,", "parse-error inside-last-line-no-newline", -2},
			{"\tMOV AX,1\r\n\tMOV AX,\r\n\tHLT\r\n", "parse-error crlf", -2},
			{"; \x93\xfa\x96\x7b\x8c\xea \x83\x5c\n\tHLT\nfoo", "parse-error after-sjis-comment-no-newline", -2},
			{"[FORMAT \"WCOFF\"]\n[BITS 32", "parse-error coff-directive-no-newline", -2},
			{"[FORMAT \"WCOFF\"]\n[BITS 32]\n\tGLOBAL _f\n_f:\n\tMOV EAX,\n", "parse-error coff", -2},
			{string(bytes.Repeat([]byte("\tMOV AX,1\n"), 3000)) + "\tJMP {{\n", "late-failure-after-large-image", -1},
		} {
			add(&CLICase{What: "failing-run", Src: []byte(f.src), Prefill: junk, WantExit: f.want, Cell_: "failing " + f.kind + " prefilled"})
			add(&CLICase{What: "failing-run", Src: []byte(f.src), WantExit: f.want, Cell_: "failing " + f.kind + " fresh"})
		}
		// run all CLI jobs in parallel, then judge
		var jobs []CLIJob
		for _, c := range cases {
			jobs = append(jobs, c.jobs()...)
		}
		runs := env.RunCLI(jobs)
		var cs []Case
		for i, c := range cases {
			c.pre = []CLIRun{runs[i]}
			cs = append(cs, c)
		}
		outs := RunCases(env, cs)
		rep.Rule = "the REAL gosk binary, one fresh process per case: (a) argument vectors of length 0-4 over {existing / missing / directory / below-a-file source, writable / missing-directory / directory / empty-name output, list-file and extra arguments, -d, empty source, pre-filled destination, /dev/null, a symlink to /dev/null, a named pipe with a reader} with the exit status the contract names (16, 17, 0) and the exact image on success; " +
			"(b) seeded programs (flat 16/32-bit, WCOFF) through the CLI versus the in-process API: identical bytes; (c) the same programs with ';' and '#' comments in UTF-8 and in Shift_JIS, including double-byte characters whose trail byte is 0x5c or 0x7c (ソ 表 能 十 予 ポ), half-width katakana and random lead/trail pairs, also at the very end of a line before LF and CRLF, versus the comment-free form; " +
			"(d) failing runs (parse error, pass-2 template error, failure after a large image) into fresh and pre-filled destinations: afterwards the destination is its previous contents or empty, and parse failures print line:column; distinct = scenario cells"
		rep.Extra["cli_processes"] = len(jobs)
		for i := 0; i < len(cases) && len(rep.Samples) < 6; i += len(cases)/6 + 1 {
			c := cases[i]
			rep.AddSample(map[string]any{"what": c.What, "argv": runs[i].Args, "setup": c.Setup, "exit": runs[i].Exit, "stdout": clipStr(runs[i].Stdout, 120), "source": clipStr(printable(c.Src), 200), "verdict": outs[i].Status.String()})
		}
		env.Assume("the checks run as root: a source that exists but is unreadable cannot be produced with file modes; 'source path below a regular file' and 'source is a directory' stand in for it")
		env.Assume("I/O faults in the middle of a write are not injected: the quantifier of C19 is over argument vectors and inputs, not fault sequences")
		rep.Add(cs, outs)
	}}
}
