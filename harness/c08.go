package main

import (
	"bytes"
	"fmt"
	"sort"
	"strings"
)

// CoffCase serves C08 (structural validity) and C09 (same code, right symbols).
type CoffCase struct {
	Prop    string            `json:"prop"`
	P       Prog              `json:"prog"`    // body (32-bit code with labels L<i>)
	Rename  map[string]string `json:"rename"`  // label -> exported name
	Globals [][]string        `json:"globals"` // GLOBAL statements (names after renaming), in order
	GPos    []int             `json:"gpos"`    // statement index in P.Stmts before which each GLOBAL statement goes (-1 = header)
	File    *string           `json:"file"`    // [FILE] name, nil = no directive
	Externs [][]string        `json:"externs"` // EXTERN statements (names unrelated to the program, and names that are also GLOBAL)
	EPos    []int             `json:"epos"`    // where each EXTERN statement goes (as GPos; an EXTERN comes before a GLOBAL at the same place)
	Sects   []string          `json:"sects"`   // [SECTION name] lines
	SPos    []int             `json:"spos"`    // where each goes (as GPos; before EXTERN/GLOBAL at the same place)
	Cell_   string            `json:"cell"`
}

func (c *CoffCase) Kind() string { return "coff" }

func (c *CoffCase) source(withFormat bool) string {
	var b strings.Builder
	if withFormat {
		b.WriteString("[FORMAT \"WCOFF\"]\n")
	}
	b.WriteString("[BITS 32]\n")
	if c.File != nil {
		fmt.Fprintf(&b, "[FILE \"%s\"]\n", *c.File)
	}
	emitG := func(pos int) {
		for i, g := range c.Globals {
			if c.GPos[i] == pos && len(g) > 0 {
				b.WriteString("\tGLOBAL " + strings.Join(g, ", ") + "\n")
			}
		}
	}
	emitE := func(pos int) {
		for i, g := range c.Externs {
			if c.EPos[i] == pos && len(g) > 0 {
				b.WriteString("\tEXTERN " + strings.Join(g, ", ") + "\n")
			}
		}
	}
	emitS := func(pos int) {
		for i, t := range c.Sects {
			if c.SPos[i] == pos {
				b.WriteString("[SECTION " + t + "]\n")
			}
		}
	}
	emitS(-1)
	emitE(-1)
	emitG(-1)
	for i, s := range c.P.Stmts {
		emitS(i)
		emitE(i)
		emitG(i)
		b.WriteString(s.Line())
		b.WriteByte('\n')
	}
	emitS(len(c.P.Stmts))
	emitE(len(c.P.Stmts))
	emitG(len(c.P.Stmts))
	return renameIdents(b.String(), c.Rename)
}

func (c *CoffCase) Reqs() []Req {
	// the object is produced twice in the same process: the second one must be as good as the first
	return []Req{{Src: []byte(c.source(true))}, {Src: []byte(c.source(false))}, {Src: []byte(c.source(true))}}
}

func (c *CoffCase) Judge(rs []Res, env *Env) Outcome {
	o := Outcome{Cell: c.Cell_}
	flatOK, _ := env.accepted(&rs[1])
	for i := range rs {
		if ok, why := env.accepted(&rs[i]); !ok {
			// "declared but not found" warnings for undefined GLOBALs are expected
			if flatOK && i != 1 {
				// the same program assembles as a flat binary: the refusal comes from producing the object
				o.Status = Violated
				o.Viols = []Violation{{Sig: c.Prop + "|object-refused", Detail: fmt.Sprintf("the program assembles as a flat binary but is refused with [FORMAT \"WCOFF\"] (%s); source:\n%s", why, clipStr(c.source(true), 1500))}}
				return o
			}
			o.Status, o.Note = Rejected, why
			return o
		}
	}
	obj, flat := rs[0].Out, rs[1].Out
	src := c.source(true)
	if len(rs) > 2 && !bytes.Equal(rs[2].Out, obj) {
		// judge the repeated object: it is the one that differs
		obj = rs[2].Out
	}
	f := ParseCoff(obj)
	fail := func(kind, detail string) Outcome {
		o.Status = Violated
		o.Viols = append(o.Viols, Violation{Sig: fmt.Sprintf("%s|%s", c.Prop, kind), Detail: fmt.Sprintf("%s; object %d bytes; source:\n%s", detail, len(obj), clipStr(src, 1500))})
		return o
	}
	if c.Prop == "C08" {
		if len(f.Problems) > 0 {
			return fail("structure", strings.Join(f.Problems, "; "))
		}
		if p := crossReadPE(obj, f); len(p) > 0 {
			return fail("independent-reader", strings.Join(p, "; "))
		}
		o.Status = Held
		return o
	}
	// ---- C09
	if len(f.Problems) > 0 {
		for _, pr := range f.Problems {
			if strings.Contains(pr, "long-name offset") || strings.Contains(pr, "long name at offset") {
				return fail("long-name-unrecoverable", "a name longer than eight bytes cannot be recovered through the string table: "+pr)
			}
		}
		o.Status, o.Note = Inconclusive, "object is not structurally valid (C08 reports it): "+f.Problems[0]
		return o
	}
	if !bytes.Equal(f.Text, flat) {
		return fail("text-differs", fmt.Sprintf(".text (%d bytes) is not byte-identical to the flat binary of the same source without FORMAT (%d bytes)", len(f.Text), len(flat)))
	}
	// true label offsets from the walker on the flat image
	p := Prog{Stmts: append([]PStmt{{K: "bits", N: 32}}, c.P.Stmts...)}
	w := p.DoWalk(flat)
	o.Decodes = w.Decodes
	lab := p.LabelIndex()
	trueOff := map[string]int{}
	for l, i := range lab {
		if w.FailAt < 0 || i < w.FailAt {
			trueOff[c.name(l)] = w.Off[i]
		}
	}
	// declared names in order of first declaration
	var declared []string
	seen := map[string]bool{}
	for _, g := range c.Globals {
		for _, n := range g {
			if !seen[n] {
				seen[n] = true
				declared = append(declared, n)
			}
		}
	}
	defined := map[string]bool{}
	for l := range lab {
		defined[c.name(l)] = true
	}
	// symbols after the four fixed entries
	var ext []CoffSym
	for _, s := range f.Syms {
		if s.Class == 2 {
			ext = append(ext, s)
		}
	}
	count := map[string]int{}
	for _, s := range ext {
		count[s.Name]++
	}
	for _, n := range declared {
		if count[n] != 1 {
			return fail("symbol-count", fmt.Sprintf("GLOBAL %s appears %d times as an external symbol (names present: %v)", n, count[n], symNames(ext)))
		}
	}
	externOnly := map[string]bool{}
	for _, g := range c.Externs {
		for _, n := range g {
			if !seen[n] {
				externOnly[n] = true
			}
		}
	}
	for _, s := range ext {
		if externOnly[s.Name] {
			// a name that is only EXTERN may or may not be recorded; if it is, as an undefined symbol and once
			if s.Section != 0 || count[s.Name] != 1 {
				return fail("extern-symbol", fmt.Sprintf("EXTERN %s is recorded with section %d, %d times", s.Name, s.Section, count[s.Name]))
			}
			continue
		}
		if !seen[s.Name] {
			return fail("foreign-symbol", fmt.Sprintf("external symbol %q was never declared GLOBAL (declared: %v)", s.Name, declared))
		}
		if defined[s.Name] {
			if s.Section != 1 {
				return fail("symbol-section", fmt.Sprintf("defined GLOBAL %s has section number %d, expected 1", s.Name, s.Section))
			}
			if to, ok := trueOff[s.Name]; ok && int(s.Value) != to {
				kind := "symbol-value"
				if len(c.P.Stmts) > 0 && c.P.Stmts[0].K == "org" {
					kind = "symbol-value-org" // the source has an ORG: gosk records origin + offset (finding F901)
				}
				return fail(kind, fmt.Sprintf("GLOBAL %s has value %d, the label really is at offset %d of .text", s.Name, s.Value, to))
			}
		} else if s.Section != 0 {
			return fail("symbol-section", fmt.Sprintf("undefined GLOBAL %s has section number %d, expected 0", s.Name, s.Section))
		}
	}
	// order: defined ascending by value, undefined last
	sawUndef := false
	last := int64(-1)
	for _, s := range ext {
		if s.Section == 0 {
			sawUndef = true
			continue
		}
		if sawUndef {
			return fail("symbol-order", fmt.Sprintf("defined symbol %s follows an undefined one: %v", s.Name, symNames(ext)))
		}
		if int64(s.Value) < last {
			return fail("symbol-order", fmt.Sprintf("defined symbols are not ordered by address: %v", symNames(ext)))
		}
		last = int64(s.Value)
	}
	// .file record
	if len(f.Syms) == 0 || f.Syms[0].Name != ".file" || len(f.Syms[0].Aux) < 18 {
		return fail("file-record", "the first symbol is not a .file record with an auxiliary entry")
	}
	want := ""
	if c.File != nil {
		want = *c.File
	}
	got := cstr(f.Syms[0].Aux[:18])
	if len(want) <= 18 {
		if got != want {
			return fail("file-record", fmt.Sprintf(".file auxiliary record holds %q, [FILE] says %q", got, want))
		}
	} else if !strings.HasPrefix(want, got) || got == "" {
		return fail("file-record", fmt.Sprintf(".file auxiliary record holds %q, which is not a prefix of the [FILE] name %q", got, want))
	}
	if w.FailAt >= 0 && w.FailAt < len(p.Stmts) {
		o.Status, o.Note = Inconclusive, "walk stopped: "+oneLine(w.FailWhy, 100)
		return o
	}
	o.Status = Held
	return o
}

func (c *CoffCase) name(l string) string {
	if n, ok := c.Rename[l]; ok {
		return n
	}
	return l
}

func symNames(ss []CoffSym) []string {
	var o []string
	for _, s := range ss {
		o = append(o, fmt.Sprintf("%s@%d/s%d", s.Name, s.Value, s.Section))
	}
	return o
}

func clipStr(s string, n int) string {
	if len(s) > n {
		return s[:n] + "..."
	}
	return s
}

func init() { registerKind("coff", func() Case { return &CoffCase{} }) }

// genCoffCase: a 32-bit program with labels, a GLOBAL plan and a FILE name.
func genCoffCase(r *Rand, prop string, reserved []string, big bool) *CoffCase {
	pc := c03Random(r, 32, -1, true)
	// drop the leading [BITS 32] (the case writes its own prologue) and the first probe
	var body []PStmt
	for _, s := range pc.P.Stmts {
		if s.K == "bits" {
			continue
		}
		body = append(body, s)
	}
	if r.Chance(1, 10) {
		body = nil // empty .text
	}
	if prop == "C09" && len(body) > 0 && r.Chance(1, 8) {
		// an ORG in a source that is assembled to an object: the code must still be the code of the flat binary
		body = append([]PStmt{{K: "org", N: int64(Pick(r, []int{0x1000, 0x280000, 0x7c00}))}}, body...)
	}
	if big && len(body) > 0 {
		// > 64 KiB of .text
		body = append([]PStmt{{K: "resb", N: int64(Pick(r, []int{0x10000, 0x10001, 70000}))}}, body...)
	}
	c := &CoffCase{Prop: prop, P: Prog{Stmts: body}, Rename: map[string]string{}}
	labs := []string{}
	for _, s := range body {
		if s.K == "label" {
			labs = append(labs, s.Label)
		}
	}
	taken := map[string]bool{}
	lens := []int{1, 2, 5, 7, 8, 8, 9, 9, 10, 16, 17, 18, 19, 31, 40}
	var exported []string
	for _, l := range labs {
		n := Pick(r, lens)
		var name string
		if len(exported) > 0 && r.Chance(1, 4) {
			// share a prefix with an earlier name / be a prefix or an infix of it
			base := c.Rename[Pick(r, exported)]
			switch r.Intn(3) {
			case 0:
				name = base + Pick(r, []string{"_far", "2", "_x", "A"})
			case 1:
				if len(base) > 2 {
					name = base[:len(base)-1]
				}
			default:
				if len(base) > 3 {
					name = "_" + base[1:len(base)-1]
				}
			}
			if name == "" || taken[name] || hasReservedPrefix(name, reserved) || len(name) > 40 {
				name = ""
			} else {
				taken[name] = true
			}
		}
		for name == "" {
			name = "_" + genIdent(r, n, nil, map[string]bool{})
			if len(name) > 40 {
				name = name[:40]
			}
			if taken[name] {
				name = ""
				continue
			}
			taken[name] = true
		}
		c.Rename[l] = name
		exported = append(exported, l)
	}
	// GLOBAL plan: a subset of the labels in a seeded order, some undefined names, some duplicates, split over 0..4 statements
	var names []string
	for _, l := range labs {
		if r.Chance(2, 3) {
			names = append(names, c.Rename[l])
		}
	}
	for i := r.Intn(3); i > 0; i-- {
		names = append(names, "_undef"+genIdent(r, Pick(r, []int{2, 3, 12}), nil, taken))
	}
	Shuffle(r, names)
	if len(names) > 0 && r.Chance(1, 5) {
		names = append(names, names[r.Intn(len(names))]) // declared twice
	}
	if r.Chance(1, 12) {
		// long GLOBAL list
		for i := 0; i < 40; i++ {
			names = append(names, "_many"+genIdent(r, Pick(r, []int{3, 4, 10}), nil, taken))
		}
	}
	if r.Chance(1, 15) {
		// very long GLOBAL lists: the symbol table passes 255/256 and 511/512 records (8 fixed records + the .file
		// continuation records + one per name), where a counter narrower than the header field would wrap
		for i, n := 0, Pick(r, []int{230, 240, 247, 248, 249, 255, 256, 257, 300, 504, 520, 700}); i < n; i++ {
			names = append(names, fmt.Sprintf("_v%d%s", i, genIdent(r, Pick(r, []int{1, 3, 9}), nil, taken)))
		}
	}
	ng := r.Intn(4) + 1
	c.Globals = make([][]string, ng)
	c.GPos = make([]int, ng)
	for i, n := range names {
		k := r.Intn(ng)
		_ = i
		c.Globals[k] = append(c.Globals[k], n)
	}
	for k := range c.GPos {
		switch r.Intn(3) {
		case 0:
			c.GPos[k] = -1
		case 1:
			c.GPos[k] = len(body)
		default:
			c.GPos[k] = r.Intn(len(body) + 1)
		}
	}
	if r.Chance(1, 2) {
		// EXTERN statements: names the program does not define, and names it also exports
		ne := r.Intn(2) + 1
		c.Externs = make([][]string, ne)
		c.EPos = make([]int, ne)
		for k := 0; k < ne; k++ {
			for j := r.Intn(2) + 1; j > 0; j-- {
				c.Externs[k] = append(c.Externs[k], "_ext"+genIdent(r, Pick(r, []int{2, 4, 11}), nil, taken))
			}
			if len(names) > 0 && r.Chance(1, 2) {
				c.Externs[k] = append(c.Externs[k], names[r.Intn(len(names))])
			}
			c.EPos[k] = Pick(r, []int{-1, -1, len(body), r.Intn(len(body) + 1)})
		}
	}
	if r.Chance(4, 5) {
		fl := Pick(r, []int{0, 1, 8, 12, 17, 18, 19, 20, 35, 36, 37, 64})
		fn := ""
		for len(fn) < fl {
			fn += string("naskfunc_abcdefghijklmnopqrstuvwxyz0123456789"[r.Intn(45)])
		}
		if fl > 4 {
			fn = fn[:fl-4] + ".nas"
		}
		if fl > 6 && r.Chance(1, 3) {
			// a path rather than a bare file name: directory separators, dots, dashes and blanks at seeded places
			b := []byte(fn)
			for j := r.Intn(3) + 1; j > 0; j-- {
				b[r.Intn(fl-5)] = "//.- "[r.Intn(5)]
			}
			fn = string(b)
		}
		c.File = &fn
	}
	fl := -1
	if c.File != nil {
		fl = len(*c.File)
	}
	// section lines: the usual [SECTION .text] up front, and now and then a [SECTION .data] / [SECTION .bss] in front of the
	// statements that follow (gosk keeps one image; whatever it does with the names, the object has to stay well-formed and
	// carry the same bytes)
	if r.Chance(1, 3) {
		c.Sects, c.SPos = append(c.Sects, ".text"), append(c.SPos, -1)
	}
	if r.Chance(1, 4) {
		c.Sects, c.SPos = append(c.Sects, Pick(r, []string{".data", ".data", ".bss"})), append(c.SPos, r.Intn(len(body)+1))
	}
	sort.Strings(exported)
	c.Cell_ = fmt.Sprintf("labels=%d globals=%d stmts=%d file=%d big=%v", len(labs), len(names)/3, ng, fl/6, big)
	return c
}

func runCoffProp(prop string) func(env *Env, rep *Report) {
	return func(env *Env, rep *Report) {
		env.InitBaseline()
		r := NewRand(env.Seed, prop)
		reserved := reservedPrefixes(env.Repo)
		n := 600
		if env.Tier == "thorough" {
			n = 25000
		}
		var cases []Case
		for i := 0; i < n; i++ {
			cases = append(cases, genCoffCase(r, prop, reserved, prop == "C08" && i%40 == 7))
		}
		if prop == "C08" {
			rep.Rule = "seeded `[FORMAT \"WCOFF\"]` programs: .text from empty to > 64 KiB, GLOBAL lists of 0..45 names (one case in fifteen 230..700 names, so that the symbol table passes 256 and 512 records) of length 1..40 (including exactly 8 and 9) that are defined, undefined, declared twice, or prefixes/infixes/extensions of one another, spread over 1-4 GLOBAL statements placed before, inside and after the code, with/without [FILE] of length 0..64 (including 17, 18, 19, 36; a third of the longer ones paths with / . - and blanks), [SECTION .text] up front in a third and a [SECTION .data]/[SECTION .bss] line at a seeded place in a quarter of the programs; " +
				"oracle: a strict COFF layout validator (machine, 3 section headers, every pointer/size inside the file and non-overlapping, symbol count = records incl. auxiliaries, string-table length = bytes remaining = file end, long-name offsets NUL-terminated inside the table) plus Go's debug/pe reading the same sections and symbol names; distinct = (labels, globals bucket, statements, file-name bucket, size) cells"
		} else {
			rep.Rule = "seeded 32-bit programs from the size-clean pool with labels; a seeded subset and order of the labels is declared GLOBAL (before/after/inside the definitions, in 1-4 statements, names 1..40 long incl. 8/9 and prefix/infix families), with undefined and doubly declared names and [FILE] names of length 0..64 (bare names and paths), [SECTION] lines as in C08; each source is assembled with and without the FORMAT line; " +
				"oracle: .text == flat image; the walker gives true label offsets on the flat image; every defined GLOBAL appears exactly once as a class-2 symbol of section 1 with value = offset, long names resolve through the string table, defined symbols ascend by value with undefined last, the .file auxiliary record holds the [FILE] name (a prefix when longer than 18); distinct = same cells as C08"
		}
		outs := RunCases(env, cases)
		xcheckProg(env, rep, outs)
		for i := 0; i < len(cases) && len(rep.Samples) < 4; i += len(cases)/4 + 1 {
			rep.AddSample(map[string]any{"source": clipStr(cases[i].(*CoffCase).source(true), 1200), "verdict": outs[i].Status.String()})
		}
		rep.Add(cases, outs)
	}
}

func init() {
	props["C08"] = propCheck{run: runCoffProp("C08")}
	props["C09"] = propCheck{run: runCoffProp("C09")}
}
