package main

import "fmt"

// The clean pool: statement kinds that composite-program properties (C03,
// C09-C17) draw from.  It is the instance model restricted to constructs that
// are free of listed defects (KNOWN_FINDINGS.txt): every exclusion below names
// the finding that causes it.  The pool is fixed by these rules, never computed
// from failures at run time.

var poolALU = []string{"ADD", "SUB", "CMP", "AND", "OR", "XOR"}

var poolNoop = []string{"NOP", "HLT", "CLI", "STI", "CLD", "STD", "CLC", "STC", "CMC", "LAHF", "SAHF", "AAA", "AAS", "DAA", "DAS",
	"INTO", "WAIT", "PUSHA", "POPA", "PUSHF", "POPF", "IRET", "LEAVE", "RET"}

// values that fit a w-bit operand (as signed or unsigned)
func poolImm(r *Rand, w int) int64 {
	var c []int64
	switch w {
	case 8:
		c = []int64{0, 1, 2, 7, 0x10, 0x7f, 0x80, 0xff, -1, -2, -0x7f, -0x80, 'A', 0x55}
	case 16:
		c = []int64{0, 1, 2, 0x7f, 0x80, 0xff, 0x100, 0x1234, 0x7fff, 0x8000, 0xfff0, 0xffff, -1, -0x80, -0x81, -0x100, -0x7fff, -0x8000, 0x7c00}
	default:
		c = []int64{0, 1, 2, 0x7f, 0x80, 0xff, 0x100, 0x7fff, 0x8000, 0xffff, 0x10000, 0x12345678, 0x7fffffff, 0x80000000, 0xffffffff,
			-1, -0x80, -0x81, -0x8000, -0x8001, -0x7fffffff, -0x80000000, 0x00280000}
	}
	if r.Chance(1, 4) {
		return int64(r.Intn(300)) - 150
	}
	return Pick(r, c)
}

func poolDisp(r *Rand, asz int) (int64, bool) {
	switch r.Intn(6) {
	case 0:
		return 0, false
	case 1:
		return 0, true
	case 2:
		return int64(r.Range(-128, 127)), true
	case 3:
		return Pick(r, []int64{127, 128, -128, -129, 255, 256, 0x7fff, -0x8000}), true
	case 4:
		if asz == 16 {
			return Pick(r, []int64{0x8000, 0xff80, 0xfffc, 0xffff, 0x1234}), true
		}
		return Pick(r, []int64{0x8000, 0x10000, 0x12345678, -0x12345678, 0x7fffffff}), true
	}
	return int64(r.Range(-300, 300)), true
}

// poolShape: a memory shape free of F101-F103 / F201-F204.
func poolShape(r *Rand, mode int) MemShape {
	asz := mode
	if mode == 16 && r.Chance(1, 5) {
		asz = 32 // 32-bit addressing in 16-bit code is fine; 16-bit addressing in 32-bit code is F102/F203
	}
	if r.Chance(1, 8) {
		v := Pick(r, []int64{0, 4, 0x7f, 0x80, 0xff, 0x0ff0, 0x1234, 0x7fff, 0x8000, 0xffff})
		if mode == 32 && r.Bool() {
			v = Pick(r, []int64{0x10000, 0x12345678, 0x00280000, 0x7fffffff})
		}
		return MemShape{ASize: 0, Base: -1, Index: -1, Disp: v, HasDisp: true}
	}
	d, has := poolDisp(r, asz)
	if asz == 16 {
		p := Pick(r, [][2]int{{3, 6}, {3, 7}, {5, 6}, {5, 7}, {3, -1}, {5, -1}, {6, -1}, {7, -1}})
		return MemShape{ASize: 16, Base: p[0], Index: p[1], Scale: 1, Disp: d, HasDisp: has}
	}
	base := r.Intn(8)
	if r.Chance(1, 2) {
		return MemShape{ASize: 32, Base: base, Index: -1, Scale: 1, Disp: d, HasDisp: has}
	}
	idx := Pick(r, []int{0, 1, 2, 3, 5, 6, 7})
	for idx == base {
		idx = Pick(r, []int{0, 1, 2, 3, 5, 6, 7}) // [r+r] is F103/F204
	}
	sc := Pick(r, []int{1, 2, 4, 8})
	if base == 5 && (!has || d == 0) {
		d, has = int64(r.Range(1, 100)), true // [EBP+index] without displacement is F202
	}
	return MemShape{ASize: 32, Base: base, Index: idx, Scale: sc, Disp: d, HasDisp: has}
}

func mkInst(mn string, mode int, ops ...XOp) *XInst { return &XInst{Mn: mn, Mode: mode, Ops: ops} }

// poolInst: one label-free, position-independent instruction.
func poolInst(r *Rand, mode int) *XInst {
	w := Pick(r, widths)
	reg := func(w int) XOp { return xgpr(w, r.Intn(8)) }
	switch r.Intn(20) {
	case 0, 1:
		return mkInst("MOV", mode, reg(w), ximm(poolImm(r, w), r.Intn(3)))
	case 2:
		return mkInst(Pick(r, poolALU), mode, reg(w), reg(w))
	case 3:
		return mkInst("MOV", mode, reg(w), reg(w))
	case 4, 5:
		return mkInst(Pick(r, poolALU), mode, reg(w), ximm(poolImm(r, w), r.Intn(3)))
	case 6:
		sh := poolShape(r, mode)
		mn := Pick(r, append([]string{"MOV", "MOV"}, poolALU...))
		if r.Bool() {
			return mkInst(mn, mode, reg(w), xmem(sh, w, false, r.Intn(5), r.Intn(2)))
		}
		return mkInst(mn, mode, xmem(sh, w, false, r.Intn(5), r.Intn(2)), reg(w))
	case 7:
		sh := poolShape(r, mode)
		mn := Pick(r, append([]string{"MOV", "MOV"}, poolALU...))
		return mkInst(mn, mode, xmem(sh, w, true, r.Intn(5), r.Intn(2)), ximm(poolImm(r, w), r.Intn(3)))
	case 8:
		max := map[int]int{8: 7, 16: 15, 32: 31}[w]
		return mkInst(Pick(r, []string{"SHL", "SHR", "SAR"}), mode, reg(w), ximm(int64(r.Range(1, max)), 0))
	case 9:
		if r.Bool() {
			return mkInst("NOT", mode, reg(w))
		}
		return mkInst("NOT", mode, xmem(poolShape(r, mode), w, true, 0, 1))
	case 10:
		ww := Pick(r, []int{16, 32})
		return mkInst(Pick(r, []string{"PUSH", "POP"}), mode, reg(ww))
	case 11:
		s := Pick(r, []int{0, 2, 3, 4, 5})
		if r.Bool() {
			return mkInst("PUSH", mode, xreg(SREG, s))
		}
		return mkInst("POP", mode, xreg(SREG, s))
	case 12:
		acc := xgpr(w, 0)
		if r.Bool() {
			if r.Bool() {
				return mkInst("IN", mode, acc, xgpr(16, 2))
			}
			return mkInst("OUT", mode, xgpr(16, 2), acc)
		}
		p := int64(r.Intn(256))
		if w == 32 {
			return mkInst("OUT", mode, ximm(p, 1), acc) // IN EAX,imm8 is rejected by gosk
		}
		if r.Bool() {
			return mkInst("IN", mode, acc, ximm(p, 1))
		}
		return mkInst("OUT", mode, ximm(p, 1), acc)
	case 13:
		n := int64(r.Intn(256))
		if n == 3 {
			n = 0x10
		}
		return mkInst("INT", mode, ximm(n, r.Intn(2)))
	case 14, 15:
		return mkInst(Pick(r, poolNoop), mode)
	case 16:
		s := Pick(r, []int{0, 2, 3, 4, 5})
		if r.Bool() {
			return mkInst("MOV", mode, xreg(SREG, s), xgpr(16, r.Intn(8)))
		}
		return mkInst("MOV", mode, xgpr(16, r.Intn(8)), xreg(SREG, r.Intn(6)))
	case 17:
		cr := Pick(r, []int{0, 2, 3, 4})
		if r.Bool() {
			return mkInst("MOV", mode, xreg(CREG, cr), xgpr(32, r.Intn(8)))
		}
		return mkInst("MOV", mode, xgpr(32, r.Intn(8)), xreg(CREG, cr))
	case 18:
		addr := Pick(r, []int64{0, 0x7f, 0x80, 0x0ff0, 0x1234, 0x7fff, 0x8000, 0xffff})
		if mode == 32 && r.Bool() {
			addr = Pick(r, []int64{0x10000, 0x12345678, 0x00280000})
		}
		sh := MemShape{ASize: 0, Base: -1, Index: -1, Disp: addr, HasDisp: true}
		if r.Bool() {
			return mkInst("MOV", mode, xgpr(w, 0), xmem(sh, w, false, 0, 1))
		}
		return mkInst("MOV", mode, xmem(sh, w, false, 0, 1), xgpr(w, 0))
	default:
		ww := Pick(r, []int{16, 32})
		v := poolImm(r, 16)
		if v > 0x7fff {
			v -= 0x10000 // gosk refuses IMUL r16,imm for 0x8000..0xffff (diagnosed, not a finding)
		}
		return mkInst("IMUL", mode, reg(ww), ximm(v, r.Intn(3)))
	}
}

var dataStrings = []string{"hello", "a;b", "x#y", "p,q", " sp ace ", "it's", "A", "HELLO, world; # ok", "ロード中", "naïve"}

func numItem(v int64, style int) DItem { return DItem{Kind: "num", Num: v, Text: spellInt(v, style)} }

// poolData: a DB/DW/DD statement with numeric (and for DB string) operands.
func poolData(r *Rand) PStmt {
	w := Pick(r, []int{1, 2, 4})
	n := r.Range(1, 6)
	s := PStmt{K: "data", W: w}
	for i := 0; i < n; i++ {
		if w == 1 && r.Chance(1, 4) {
			str := Pick(r, dataStrings)
			s.Items = append(s.Items, DItem{Kind: "str", Str: str, Text: fmt.Sprintf("%q", str)})
			continue
		}
		s.Items = append(s.Items, numItem(poolImm(r, 8*w), r.Intn(3)))
	}
	return s
}
