package main

import (
	"fmt"
	"math/big"
	"strings"
)

// Expression model (C05 C06 C11): random constant-expression trees, an
// evaluator with the textbook rules in math/big, and renderers.

type Expr struct {
	Op    string `json:"op,omitempty"` // "" leaf, else + - * / %
	L     *Expr  `json:"l,omitempty"`
	R     *Expr  `json:"r,omitempty"`
	Val   int64  `json:"v,omitempty"`    // literal value
	Hex   bool   `json:"hex,omitempty"`  // literal spelled in hex (non-negative only)
	Name  string `json:"name,omitempty"` // EQU name or "$"
	Paren bool   `json:"paren,omitempty"`
}

var exprLits = []int64{0, 1, -1, 2, 3, 4, 5, 7, 8, 10, 16, 100, 127, 128, 255, 256, 512, 1000, 0x7f, 0x80, 0xff, 0x7fff, 0x8000, 0xffff, 0x10000, 0x7fffffff, -2, -7, -128, -129}

// Eval: * / % bind tighter than + -, equal precedence associates left to
// right (given by the tree), division truncates toward zero.  names gives the
// value of EQU names and "$".  ok=false on division by zero or unknown name.
func (e *Expr) Eval(names map[string]int64) (*big.Int, bool) {
	if e.Op == "" {
		if e.Name != "" {
			v, ok := names[e.Name]
			return big.NewInt(v), ok
		}
		return big.NewInt(e.Val), true
	}
	l, ok := e.L.Eval(names)
	if !ok {
		return nil, false
	}
	r, ok := e.R.Eval(names)
	if !ok {
		return nil, false
	}
	z := new(big.Int)
	switch e.Op {
	case "+":
		z.Add(l, r)
	case "-":
		z.Sub(l, r)
	case "*":
		z.Mul(l, r)
	case "/":
		if r.Sign() == 0 {
			return nil, false
		}
		z.Quo(l, r) // truncated toward zero
	case "%":
		if r.Sign() == 0 {
			return nil, false
		}
		z.Rem(l, r)
	}
	return z, true
}

func prec(op string) int {
	switch op {
	case "+", "-":
		return 1
	case "*", "/", "%":
		return 2
	}
	return 3
}

// Render: style 0 no spaces, 1 spaces around operators, 2 mixed/tabs.
func (e *Expr) Render(style int) string {
	var sp string
	switch style {
	case 1:
		sp = " "
	case 2:
		sp = "  "
	}
	var s string
	if e.Op == "" {
		switch {
		case e.Name != "":
			s = e.Name
		case e.Hex && e.Val >= 0:
			s = fmt.Sprintf("0x%x", e.Val)
		default:
			s = fmt.Sprintf("%d", e.Val)
		}
	} else {
		s = e.L.Render(style) + sp + e.Op + sp + e.R.Render(style)
		if style == 2 {
			s = e.L.Render(1) + " " + e.Op + "\t" + e.R.Render(0)
		}
	}
	if e.Paren {
		if style == 0 {
			return "(" + s + ")"
		}
		return "( " + s + " )"
	}
	return s
}

// needParen: does child c need parentheses as the (left|right) operand of op
// for the tree shape to survive parsing?
func needParen(op string, c *Expr, right bool) bool {
	if c.Op == "" {
		return false
	}
	if prec(c.Op) < prec(op) {
		return true
	}
	if prec(c.Op) == prec(op) && right {
		return true // left-associative grammar: a-(b-c)
	}
	return false
}

// genExpr builds a random tree of at most the given depth; leaves are
// literals (or names with the given probability).
func genExpr(r *Rand, depth int, names []string) *Expr {
	if depth == 0 || r.Chance(1, 4) {
		if len(names) > 0 && r.Chance(1, 3) {
			return &Expr{Name: Pick(r, names)}
		}
		v := Pick(r, exprLits)
		if r.Chance(1, 5) {
			v = int64(r.Range(-300, 300))
		}
		return &Expr{Val: v, Hex: v >= 0 && r.Bool()}
	}
	op := Pick(r, []string{"+", "-", "*", "/", "%", "+", "-", "*"})
	e := &Expr{Op: op, L: genExpr(r, depth-1, names), R: genExpr(r, depth-1, names)}
	if needParen(op, e.L, false) || (e.L.Op != "" && r.Chance(1, 6)) {
		e.L.Paren = true
	}
	if needParen(op, e.R, true) || (e.R.Op != "" && r.Chance(1, 6)) {
		e.R.Paren = true
	}
	// the grammar has no unary minus before a parenthesis and a negative literal
	// directly after a binary minus is fine ("3 - -5")
	return e
}

// genConstExpr returns an expression whose value (and every intermediate
// value) stays below 2^62 in magnitude and that never divides by zero.
func genConstExpr(r *Rand, depth int, names []string, vals map[string]int64) (*Expr, int64) {
	lim := new(big.Int).Lsh(big.NewInt(1), 62)
	for {
		e := genExpr(r, depth, names)
		if v, ok := e.evalBounded(vals, lim); ok {
			return e, v.Int64()
		}
	}
}

func (e *Expr) evalBounded(names map[string]int64, lim *big.Int) (*big.Int, bool) {
	if e.Op != "" {
		if _, ok := e.L.evalBounded(names, lim); !ok {
			return nil, false
		}
		if _, ok := e.R.evalBounded(names, lim); !ok {
			return nil, false
		}
	}
	v, ok := e.Eval(names)
	if !ok || new(big.Int).Abs(v).Cmp(lim) >= 0 {
		return nil, false
	}
	return v, true
}

// substitute returns a copy in which every name is replaced by its defining
// expression (parenthesised unless it is a single literal).
func (e *Expr) substitute(defs map[string]*Expr) *Expr {
	if e.Op == "" {
		if e.Name != "" {
			if d, ok := defs[e.Name]; ok {
				c := d.substitute(defs)
				if c.Op != "" {
					cc := *c
					cc.Paren = true
					return &cc
				}
				cc := *c
				cc.Paren = e.Paren
				return &cc
			}
		}
		c := *e
		return &c
	}
	return &Expr{Op: e.Op, L: e.L.substitute(defs), R: e.R.substitute(defs), Paren: e.Paren}
}

func (e *Expr) String() string { return e.Render(1) }

func (e *Expr) usesNames() bool {
	if e.Op == "" {
		return e.Name != ""
	}
	return e.L.usesNames() || e.R.usesNames()
}

func joinNonEmpty(xs ...string) string {
	var o []string
	for _, x := range xs {
		if x != "" {
			o = append(o, x)
		}
	}
	return strings.Join(o, " ")
}
