package main

import (
	"fmt"
	"strings"
)

// C11: EQU names are transparent abbreviations.
func genC11(r *Rand) *VariantCase {
	mode := Pick(r, []int{16, 32})
	org := Pick(r, []int64{-1, 0x7c00})
	p, defs := genLabelled(r, mode, org, genOpts{Equs: true, Jumps: true})
	// more uses, so that names recur after having been used inside products and differences
	for i := 0; i < 4; i++ {
		if u := equUse(r, mode, defs); u != nil {
			// before the final label
			n := len(p.Stmts)
			p.Stmts = append(p.Stmts[:n-1], *u, p.Stmts[n-1])
		}
	}
	// operand positions the shared generator does not reach: an EQU as the scale of an index register (directly and through a
	// second EQU), as a port, an interrupt number and a shift count.  Byte comparison only, so plain text statements do.
	if r.Chance(1, 2) {
		sc := int64(Pick(r, []int{2, 4, 8}))
		half := sc / 2
		scN, sc2N, smallN := fmt.Sprintf("K%d", len(defs)), fmt.Sprintf("K%d", len(defs)+1), fmt.Sprintf("K%d", len(defs)+2)
		small := int64(r.Range(4, 31))
		extra := []equDef{{Name: scN, E: &Expr{Val: half}, Val: half},
			{Name: sc2N, E: &Expr{Op: "*", L: &Expr{Name: scN}, R: &Expr{Val: 2}}, Val: sc},
			{Name: smallN, E: &Expr{Val: small}, Val: small}}
		var eq, use []PStmt
		for _, d := range extra {
			eq = append(eq, PStmt{K: "equ", Label: d.Name, Text: d.E.Render(0), Tag: "EQU"})
		}
		use = append(use, PStmt{K: "raw", Text: fmt.Sprintf("\tMOV EAX,[EBX+ECX*%s]", sc2N)}, PStmt{K: "raw", Text: fmt.Sprintf("\tMOV [ESI+EDI*%s+%s],EDX", scN, smallN)},
			PStmt{K: "raw", Text: fmt.Sprintf("\tMOV ECX,[EDX*%s+0x100]", sc2N)}, PStmt{K: "raw", Text: fmt.Sprintf("\tIN AL,%s", smallN)}, PStmt{K: "raw", Text: fmt.Sprintf("\tOUT %s+1,AL", smallN)},
			PStmt{K: "raw", Text: fmt.Sprintf("\tINT %s", smallN)}, PStmt{K: "raw", Text: fmt.Sprintf("\tSHL BX,%s", smallN)}, PStmt{K: "raw", Text: fmt.Sprintf("\tADD BYTE [%s+%s],%s", map[int]string{16: "BX", 32: "EBX"}[mode], smallN, scN)})
		// a numeric branch target given by a name (bare, and inside an expression), and a far jump through two names
		tgtN, selN := fmt.Sprintf("K%d", len(defs)+3), fmt.Sprintf("K%d", len(defs)+4)
		tgt := int64(Pick(r, []int{0x7c40, 0x120, 0x8000}))
		extra = append(extra, equDef{Name: tgtN, E: &Expr{Val: tgt, Hex: true}, Val: tgt}, equDef{Name: selN, E: &Expr{Val: 16}, Val: 16})
		eq = append(eq, PStmt{K: "equ", Label: tgtN, Text: fmt.Sprintf("0x%x", tgt), Tag: "EQU"}, PStmt{K: "equ", Label: selN, Text: "16", Tag: "EQU"})
		use = append(use, PStmt{K: "raw", Text: fmt.Sprintf("\t%s %s", Pick(r, []string{"JMP", "JNZ", "CALL", "JC"}), tgtN)}, PStmt{K: "raw", Text: fmt.Sprintf("\tJE %s+4", tgtN)},
			PStmt{K: "raw", Text: fmt.Sprintf("\tJMP DWORD %s:%s", selN, tgtN)}, PStmt{K: "raw", Text: fmt.Sprintf("\tPUSH %s", smallN)})
		Shuffle(r, use)
		use = use[:r.Range(2, len(use))]
		// the definitions go in front (after ORG / BITS), the uses before the final label
		k := 0
		for k < len(p.Stmts) && (p.Stmts[k].K == "org" || p.Stmts[k].K == "bits") {
			k++
		}
		st := append([]PStmt{}, p.Stmts[:k]...)
		st = append(st, eq...)
		st = append(st, p.Stmts[k:len(p.Stmts)-1]...)
		st = append(st, use...)
		st = append(st, p.Stmts[len(p.Stmts)-1])
		p.Stmts = st
		defs = append(defs, extra...)
	}
	// the mode given through a name: [BITS MODE3] with MODE3 defined by a chain written top-down or bottom-up
	if mode == 32 && r.Chance(1, 3) {
		for i := range p.Stmts {
			if p.Stmts[i].K == "bits" {
				chain := []PStmt{{K: "equ", Label: "MODE1", Text: "32", Tag: "EQU"}, {K: "equ", Label: "MODE2", Text: "MODE1", Tag: "EQU"}, {K: "equ", Label: "MODE3", Text: Pick(r, []string{"MODE2", "MODE2*1", "MODE1+MODE2-32"}), Tag: "EQU"}}
				if r.Bool() {
					chain[0], chain[2] = chain[2], chain[0]
				}
				st := append([]PStmt{}, p.Stmts[:i]...)
				st = append(st, chain...)
				st = append(st, PStmt{K: "raw", Text: "[BITS MODE3]", Alt: "[BITS 32]"})
				st = append(st, p.Stmts[i+1:]...)
				p.Stmts = st
				break
			}
		}
	}
	// a name defined twice: every use stands for the definition in force above it
	if r.Chance(1, 3) {
		a, b := Pick(r, []int64{2, 0x7f, -128, 0x100}), Pick(r, []int64{3, 0x80, -129, 0x7f, 0xffff})
		use := func(v int64) []PStmt {
			lit := spellInt(v, r.Intn(2))
			forms := []string{"\tDW %s", "\tMOV CX,%s", "\tADD SI,%s", "\tMOV AL,[BX+%s]", "\tDD %s+1", "\tCMP DX,%s"}
			if mode == 32 {
				forms[3] = "\tMOV AL,[EBX+%s]"
			}
			Shuffle(r, forms)
			var out []PStmt
			for _, f := range forms[:r.Range(1, 3)] {
				out = append(out, PStmt{K: "raw", Text: fmt.Sprintf(f, "RDEF"), Alt: fmt.Sprintf(f, lit)})
			}
			return out
		}
		k := 0
		for k < len(p.Stmts) && (p.Stmts[k].K == "org" || p.Stmts[k].K == "bits") {
			k++
		}
		mid := k + (len(p.Stmts)-k)/2
		for mid < len(p.Stmts)-1 && (p.Stmts[mid].K == "resbto" || p.Stmts[mid-1].K == "resbto") {
			mid++
		}
		st := append([]PStmt{}, p.Stmts[:k]...)
		st = append(st, PStmt{K: "equ", Label: "RDEF", Text: spellInt(a, r.Intn(2)), Tag: "EQU"})
		st = append(st, use(a)...)
		st = append(st, p.Stmts[k:mid]...)
		st = append(st, PStmt{K: "equ", Label: "RDEF", Text: spellInt(b, r.Intn(2)), Tag: "EQU"})
		st = append(st, use(b)...)
		st = append(st, p.Stmts[mid:]...)
		p.Stmts = st
	}
	// names for constants of the upper half of the unsigned 32-bit range (masks, MMIO addresses), given directly and as a product:
	// every decision taken on the magnitude (sign-extended imm8 forms, PUSH imm8, disp8) must be the one taken for the literal
	if r.Chance(1, 3) {
		v := Pick(r, []int64{0xfffffff0, 0xffffff80, 0xffffff7f, 0x80000000, 0xffffffff, 0xffff8000, 0xfee00000, 0xfffffffe})
		lit := fmt.Sprintf("0x%x", v)
		half := fmt.Sprintf("0x%x", v/2)
		forms := []string{"\tAND ESP,%s", "\tMOV EAX,[EBP+%s]", "\tPUSH %s", "\tSUB EBX,%s", "\tMOV ECX,%s", "\tDD %s", "\tDD %s/2", "\tCMP EDX,%s", "\tOR DWORD [ESI],%s", "\tMOV [EBX+%s],CL", "\tDD %s-1", "\tADD EAX,%s"}
		Shuffle(r, forms)
		var use []PStmt
		for i, f := range forms[:r.Range(2, 5)] {
			if v%2 == 0 && i%2 == 1 {
				use = append(use, PStmt{K: "raw", Text: fmt.Sprintf(f, "WIDE2"), Alt: fmt.Sprintf(f, "("+half+"*2)")})
			} else {
				use = append(use, PStmt{K: "raw", Text: fmt.Sprintf(f, "WIDE"), Alt: fmt.Sprintf(f, lit)})
			}
		}
		k := 0
		for k < len(p.Stmts) && (p.Stmts[k].K == "org" || p.Stmts[k].K == "bits") {
			k++
		}
		st := append([]PStmt{}, p.Stmts[:k]...)
		st = append(st, PStmt{K: "equ", Label: "WIDE", Text: lit, Tag: "EQU"}, PStmt{K: "equ", Label: "WHALF", Text: half, Tag: "EQU"}, PStmt{K: "equ", Label: "WIDE2", Text: "WHALF*2", Tag: "EQU"})
		st = append(st, p.Stmts[k:len(p.Stmts)-1]...)
		st = append(st, use...)
		st = append(st, p.Stmts[len(p.Stmts)-1])
		p.Stmts = st
	}
	// names whose body is negative, hexadecimal with the top bit of a byte/word set, or parenthesised, used under a sign, inside a
	// product and next to a register in a memory operand
	if r.Chance(1, 3) {
		body := Pick(r, []string{"-1", "-128", "0xff", "0xffff", "(5)", "2*-3", "-129", "0x80"})
		lit := "(" + body + ")"
		br := map[int]string{16: "BX", 32: "EBX"}[mode]
		sr := map[int]string{16: "SI", 32: "ESI"}[mode]
		forms := []string{"\tMOV AL,[" + br + "-%s]", "\tMOV [" + sr + "-%s],AL", "\tDB %s", "\tADD BX,0-%s", "\tSUB CX,%s*2", "\tMOV AX,%s-1", "\tMOV AX,1-%s", "\tMOV AL,[" + br + "+%s*2]", "\tDW 0-%s", "\tCMP AL,%s",
			"\tMOV DX,[" + br + "+" + sr + "-%s]", "\tDD 100-%s", "\tMOV CL,[" + sr + "+%s]"}
		Shuffle(r, forms)
		var use []PStmt
		for _, f := range forms[:r.Range(2, 5)] {
			use = append(use, PStmt{K: "raw", Text: fmt.Sprintf(f, "NEGK"), Alt: fmt.Sprintf(f, lit)})
		}
		k := 0
		for k < len(p.Stmts) && (p.Stmts[k].K == "org" || p.Stmts[k].K == "bits") {
			k++
		}
		st := append([]PStmt{}, p.Stmts[:k]...)
		st = append(st, PStmt{K: "equ", Label: "NEGK", Text: body, Tag: "EQU"})
		st = append(st, p.Stmts[k:len(p.Stmts)-1]...)
		st = append(st, use...)
		st = append(st, p.Stmts[len(p.Stmts)-1])
		p.Stmts = st
	}
	src := p.Source()
	// inlined variant: every name replaced by its parenthesised defining expression, EQU lines removed
	dm := map[string]*Expr{}
	for _, d := range defs {
		dm[d.Name] = d.E
	}
	sub := map[string]string{}
	for _, d := range defs {
		e := d.E.substitute(dm)
		t := e.Render(1)
		if e.Op != "" || e.Val < 0 {
			t = "(" + t + ")"
		}
		sub[d.Name] = t
	}
	// EQUs that are other names for labels (from the program generator): inlined as the label itself
	for _, st := range p.Stmts {
		if st.K == "equ" {
			if _, isDef := sub[st.Label]; !isDef {
				sub[st.Label] = st.Text
			}
		}
	}
	q := stripKinds(p, "equ")
	for i := range q.Stmts {
		if q.Stmts[i].K == "raw" && q.Stmts[i].Alt != "" {
			q.Stmts[i].Text = q.Stmts[i].Alt
		}
	}
	inl := renameIdents(q.Source(), sub)
	// a program consisting only of the definitions must emit nothing: compared with an empty-code program of the same prologue
	var onlyDefs strings.Builder
	for _, s := range p.Stmts {
		if s.K == "equ" || s.K == "org" || s.K == "bits" {
			onlyDefs.WriteString(s.Line() + "\n")
		}
	}
	c := &VariantCase{Prop: "C11", Base: []byte(src), Variants: [][]byte{[]byte(inl)}, Labels: []string{"inlined"}}
	c.Cell_ = fmt.Sprintf("m%d org=%d equs=%d", mode, org, len(defs))
	return c
}

// EquOnlyCase: EQU definitions alone emit no bytes.
func genC11Only(r *Rand) *VariantCase {
	defs := genEqus(r, r.Range(1, 6))
	var b strings.Builder
	for _, d := range defs {
		fmt.Fprintf(&b, "%s\tEQU\t%s\n", d.Name, d.E.Render(r.Intn(3)))
	}
	// base: the definitions followed by one byte; variant: just that byte
	base := b.String() + "\tDB 0x5a\n"
	return &VariantCase{Prop: "C11", Base: []byte(base), Variants: [][]byte{[]byte("\tDB 0x5a\n")}, Labels: []string{"definitions-removed"}, Cell_: fmt.Sprintf("only-defs n=%d", len(defs))}
}

func init() {
	props["C11"] = propCheck{run: func(env *Env, rep *Report) {
		env.InitBaseline()
		r := NewRand(env.Seed, "C11")
		n := 1500
		if env.Tier == "thorough" {
			n = 50000
		}
		var cases []Case
		for i := 0; i < n; i++ {
			if i%10 == 9 {
				cases = append(cases, genC11Only(r))
			} else {
				cases = append(cases, genC11(r))
			}
		}
		rep.Rule = "names with negative / top-bit / parenthesised bodies under a sign, in products and next to registers in memory operands (a third of the programs); names for constants of the upper half of the unsigned 32-bit range (directly and as a product) in ALU, PUSH, displacement, DD and arithmetic positions (a third of the programs); seeded programs from the size-clean pool in which immediates, displacements, data lanes, RESB/ALIGNB arguments and other EQU bodies are expressions over 1-5 chained EQU names (depth <= 4, names reused after appearing inside products and differences), " +
			"versus the same program with every name textually replaced by its parenthesised defining expression and the EQU lines removed; plus EQU-only prefixes that must emit nothing; oracle: byte-identical outputs; distinct = (mode, origin, number of EQUs) cells"
		outs := RunCases(env, cases)
		for i := 0; i < len(cases) && len(rep.Samples) < 3; i += len(cases)/3 + 1 {
			vc := cases[i].(*VariantCase)
			rep.AddSample(map[string]any{"with_equ": clipStr(string(vc.Base), 900), "inlined": clipStr(string(vc.Variants[0]), 900), "verdict": outs[i].Status.String()})
		}
		rep.Add(cases, outs)
	}}
}
