package main

import (
	"bytes"
	"os"
	"os/exec"
	"path/filepath"
	"sync"
	"syscall"
	"time"
)

// CLIRun: one invocation of the real gosk binary in a fresh process.
type CLIRun struct {
	Args     []string
	Exit     int
	Signal   string
	Stdout   string
	Stderr   string
	Out      []byte // contents of the output file afterwards (nil = absent)
	OutExist bool
	TimedOut bool
}

type CLIJob struct {
	Src     []byte   // written to <dir>/<SrcName> unless nil
	SrcName string   // default in.nas
	OutName string   // default out.bin
	Args    []string // explicit argument vector (relative paths are relative to the job directory); nil = [SrcName OutName]
	Prefill []byte   // written to the output path before the run (nil = no file)
	Env     []string
	Setup   func(dir string) // extra preparation (directories, permissions)
	Post    func(dir string) // after the process has ended, before the output is read
	OutFrom string           // read the output from this file of the job directory instead of the output path (FIFO destinations)
	NoRead  bool             // the output path is not a regular file: do not read it back
	KeepDir bool
}

func (e *Env) RunCLI(jobs []CLIJob) []CLIRun {
	res := make([]CLIRun, len(jobs))
	var wg sync.WaitGroup
	sem := make(chan struct{}, e.Cores)
	for i := range jobs {
		wg.Add(1)
		sem <- struct{}{}
		go func(i int) {
			defer wg.Done()
			defer func() { <-sem }()
			res[i] = e.runCLI1(jobs[i], i)
		}(i)
	}
	wg.Wait()
	return res
}

var cliSeq int
var cliMu sync.Mutex

func (e *Env) runCLI1(j CLIJob, i int) CLIRun {
	cliMu.Lock()
	cliSeq++
	n := cliSeq
	cliMu.Unlock()
	dir := filepath.Join(e.Tmp, "cli", itoa(n))
	os.MkdirAll(dir, 0o755)
	defer func() {
		if !j.KeepDir {
			os.Chmod(dir, 0o755)
			filepath.Walk(dir, func(p string, info os.FileInfo, err error) error {
				if err == nil && info.IsDir() {
					os.Chmod(p, 0o755)
				}
				return nil
			})
			os.RemoveAll(dir)
		}
	}()
	sn, on := j.SrcName, j.OutName
	if sn == "" {
		sn = "in.nas"
	}
	if on == "" {
		on = "out.bin"
	}
	if j.Src != nil {
		os.WriteFile(filepath.Join(dir, sn), j.Src, 0o644)
	}
	if j.Prefill != nil {
		os.WriteFile(filepath.Join(dir, on), j.Prefill, 0o644)
	}
	if j.Setup != nil {
		j.Setup(dir)
	}
	args := j.Args
	if args == nil {
		args = []string{sn, on}
	}
	cmd := exec.Command(e.CLI, args...)
	cmd.Dir = dir
	env := []string{"PATH=/usr/bin:/bin", "HOME=" + dir}
	if j.Env != nil {
		env = append(env, j.Env...)
	} else {
		env = append(env, "TZ=UTC", "LANG=C")
	}
	cmd.Env = env
	var so, se bytes.Buffer
	cmd.Stdout, cmd.Stderr = &so, &se
	r := CLIRun{Args: args}
	if err := cmd.Start(); err != nil {
		r.Exit = -1
		r.Stderr = err.Error()
		return r
	}
	done := make(chan error, 1)
	go func() { done <- cmd.Wait() }()
	var err error
	select {
	case err = <-done:
	case <-time.After(120 * time.Second):
		cmd.Process.Kill()
		err = <-done
		r.TimedOut = true
	}
	if ee, ok := err.(*exec.ExitError); ok {
		if ws, ok := ee.Sys().(syscall.WaitStatus); ok {
			if ws.Signaled() {
				r.Signal = ws.Signal().String()
			} else {
				r.Exit = ws.ExitStatus()
			}
		}
	}
	r.Stdout, r.Stderr = so.String(), se.String()
	if len(r.Stderr) > 4000 {
		r.Stderr = r.Stderr[:2000] + "..." + r.Stderr[len(r.Stderr)-2000:]
	}
	op := on
	if j.Args != nil {
		// positional arguments as Go's flag package sees them: leading -flags (all boolean here) up to the first argument that
		// is not one, or up to "--"; everything after that is positional, whatever it begins with.  The second is the output.
		k := 0
		for k < len(j.Args) {
			a := j.Args[k]
			if a == "--" {
				k++
				break
			}
			if len(a) < 2 || a[0] != '-' {
				break
			}
			k++
		}
		if pos := j.Args[k:]; len(pos) >= 2 {
			op = pos[1]
		}
	}
	if !filepath.IsAbs(op) {
		op = filepath.Join(dir, op)
	}
	if j.Post != nil {
		j.Post(dir)
	}
	if j.OutFrom != "" {
		op = filepath.Join(dir, j.OutFrom)
	}
	if j.NoRead {
		return r
	}
	if b, err := os.ReadFile(op); err == nil {
		r.Out, r.OutExist = b, true
	}
	return r
}

func itoa(n int) string {
	if n == 0 {
		return "0"
	}
	s := ""
	for n > 0 {
		s = string(rune('0'+n%10)) + s
		n /= 10
	}
	return s
}
