package main

import (
	"bytes"
	"encoding/hex"
	"fmt"
	"strings"
)

// CLILayoutCase: a re-layout given to the real command (cmd/gosk reads, decodes
// and may pre-process the file before the parser sees it) must leave the same
// bytes and the same exit status as the canonical layout given to the command.
type CLILayoutCase struct {
	Base    []byte `json:"base"`
	Variant []byte `json:"variant"`
	Label   string `json:"label"`
	Cell_   string `json:"cell"`
}

func (c *CLILayoutCase) Kind() string { return "cli-layout" }
func (c *CLILayoutCase) Reqs() []Req  { return nil }
func (c *CLILayoutCase) Judge(rs []Res, env *Env) Outcome {
	o := Outcome{Cell: c.Cell_}
	runs := env.RunCLI([]CLIJob{{Src: c.Base}, {Src: c.Variant}})
	b, v := runs[0], runs[1]
	if b.TimedOut || v.TimedOut {
		o.Status, o.Note = Inconclusive, "watchdog"
		return o
	}
	if b.Exit == -1 || v.Exit == -1 {
		o.Status, o.Note = Inconclusive, "harness: the command could not be started: "+b.Stderr+v.Stderr
		return o
	}
	if b.Exit != 0 || !b.OutExist {
		o.Status, o.Note = Rejected, fmt.Sprintf("the canonical layout fails (exit %d)", b.Exit)
		return o
	}
	fail := func(kind, detail string) Outcome {
		o.Status = Violated
		o.Viols = []Violation{{Sig: fmt.Sprintf("C12|cli|%s|%s", c.Label, kind), Detail: fmt.Sprintf("through the command line, layout `%s` (%d bytes of source): %s\n--- canonical source:\n%s", c.Label, len(c.Variant), detail, clipStr(string(c.Base), 800))}}
		return o
	}
	if v.Exit != b.Exit {
		return fail("exit-differs", fmt.Sprintf("exit status %d, the canonical layout gives %d; stderr %s", v.Exit, b.Exit, clipStr(v.Stderr, 300)))
	}
	if !bytes.Equal(v.Out, b.Out) {
		d := firstDiff(b.Out, v.Out)
		return fail("output-differs", fmt.Sprintf("%d bytes of output, the canonical layout gives %d; first difference at offset %d (canonical %s.., re-layout %s..)", len(v.Out), len(b.Out), d,
			hex.EncodeToString(clip(b.Out[minInt(d, len(b.Out)):], 12)), hex.EncodeToString(clip(v.Out[minInt(d, len(v.Out)):], 12))))
	}
	o.Status = Held
	return o
}

func init() { registerKind("cli-layout", func() Case { return &CLILayoutCase{} }) }

// cliLayouts: layouts that only the file-reading side of the command could
// treat differently: very long physical lines, very many lines, line-end styles
// of a large file.  src is ASCII, LF-terminated, one statement per line.
func cliLayouts(src string, cell string) []Case {
	lines := strings.Split(strings.TrimRight(src, "\n"), "\n")
	// a statement line with operands (not a label, directive or EQU) to stretch
	k := -1
	for i, l := range lines {
		f := strings.Fields(l)
		if len(f) >= 2 && (l[0] == '\t' || l[0] == ' ') && !strings.HasPrefix(f[0], "[") && !strings.HasSuffix(f[0], ":") && !strings.ContainsAny(l, "\"';#") && f[0] != "GLOBAL" && f[0] != "EXTERN" {
			k = i
			break
		}
	}
	join := func(ls []string, eol string) string { return strings.Join(ls, eol) + eol }
	with := func(i int, repl ...string) []string {
		out := append([]string{}, lines[:i]...)
		out = append(out, repl...)
		return append(out, lines[i+1:]...)
	}
	long := strings.Repeat("x", 70000)
	blanks := strings.Repeat(" ", 70000)
	var cs []Case
	add := func(label, text string) {
		cs = append(cs, &CLILayoutCase{Base: []byte(src), Variant: []byte(text), Label: label, Cell_: "cli " + label + " " + cell})
	}
	mid := len(lines) / 2
	add("long-comment-line", join(with(mid, "; "+long, lines[mid]), "\n"))
	add("65535-byte-comment-line", join(with(mid, ";"+long[:65534], lines[mid]), "\n"))
	add("65536-byte-comment-line", join(with(mid, ";"+long[:65535], lines[mid]), "\n"))
	if k >= 0 {
		add("long-trailing-blanks", join(with(k, lines[k]+blanks), "\n"))
		add("long-trailing-comment", join(with(k, lines[k]+" ; "+long), "\n"))
		f := strings.Fields(lines[k])
		add("long-gap-after-mnemonic", join(with(k, "\t"+f[0]+blanks+strings.Join(f[1:], " ")), "\n"))
	}
	pad := make([]string, 0, 9000)
	for i := 0; i < 9000; i++ {
		pad = append(pad, "; pad")
	}
	big := append(append(append([]string{}, lines[:mid]...), pad...), lines[mid:]...)
	add("large-file-lf", join(big, "\n"))
	add("large-file-crlf", join(big, "\r\n"))
	add("many-blank-lines", join(with(mid, strings.Repeat("\n", 100000)+lines[mid]), "\n"))
	// comments whose text looks like code: unbalanced quotes of both kinds, brackets, a trailing backslash, the other comment character
	texts := []string{"# 3.5\" disk", "; it's \"half", "# don't", ";# both", "#; both", "; [BX", "# ends in a backslash \\", "; \"a\" \"b\" \"", "#'", ";\"", "# MOV AX,1 ; DB \"x"}
	var cm []string
	for i, l := range lines {
		if i%4 == 1 {
			cm = append(cm, "\t\t"+texts[(i/4)%len(texts)])
		}
		if strings.TrimSpace(l) == "" {
			cm = append(cm, texts[i%len(texts)])
			continue
		}
		cm = append(cm, l+"\t"+texts[i%len(texts)])
	}
	add("code-like-comments", join(cm, "\n"))
	add("code-like-comments-crlf", join(cm, "\r\n"))
	add("no-final-newline", strings.TrimRight(join(lines, "\n"), "\n"))
	add("crlf", join(lines, "\r\n"))
	return cs
}
