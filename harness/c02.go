package main

import "fmt"

var c02Disps = []struct {
	v   int64
	has bool
}{{0, false}, {0, true}, {1, true}, {-1, true}, {127, true}, {128, true}, {-128, true}, {-129, true}, {255, true}, {256, true},
	{0x7fff, true}, {0x8000, true}, {-0x8000, true}, {0x12345678, true}}

// extra displacements for 16-bit shapes: positive spellings of negative 16-bit values
var c02Disps16 = []int64{0xff80, 0xfffc, 0xffff, 0xff7f}

func c02Shapes() []MemShape {
	var s []MemShape
	// 16-bit
	pairs := [][2]int{{3, 6}, {3, 7}, {5, 6}, {5, 7}, {3, -1}, {5, -1}, {6, -1}, {7, -1}}
	for _, p := range pairs {
		for _, d := range c02Disps {
			s = append(s, MemShape{ASize: 16, Base: p[0], Index: p[1], Scale: 1, Disp: d.v, HasDisp: d.has})
		}
		for _, d := range c02Disps16 {
			s = append(s, MemShape{ASize: 16, Base: p[0], Index: p[1], Scale: 1, Disp: d, HasDisp: true})
		}
	}
	// absolute
	for _, d := range []int64{0, 1, 0x7f, 0x80, 0xff, 0x100, 0x0ff0, 0x7fff, 0x8000, 0xffff, 0x10000, 0x12345678, 0x7fffffff, 0x80000000, 0xfee00000, 0xffffffff, -1, -2, -128, -129, -0x8000} {
		s = append(s, MemShape{ASize: 0, Base: -1, Index: -1, Disp: d, HasDisp: true})
	}
	// 32-bit
	for b := -1; b < 8; b++ {
		for i := -1; i < 8; i++ {
			if i == 4 {
				continue // ESP cannot be an index
			}
			scales := []int{1, 2, 4, 8}
			if i < 0 {
				scales = []int{1}
			}
			if b < 0 && i < 0 {
				continue
			}
			for _, sc := range scales {
				for _, d := range c02Disps {
					s = append(s, MemShape{ASize: 32, Base: b, Index: i, Scale: sc, Disp: d.v, HasDisp: d.has})
				}
			}
		}
	}
	// 32-bit: addresses in the upper half of the 4 GiB space written as unsigned numbers
	for _, b := range []int{0, 3, 5, 4} {
		for _, d := range []int64{0x7fffffff, 0x80000000, 0xfee00000, 0xffffff80, 0xffffffff} {
			s = append(s, MemShape{ASize: 32, Base: b, Index: -1, Scale: 1, Disp: d, HasDisp: true})
			if b != 4 {
				s = append(s, MemShape{ASize: 32, Base: b, Index: 6, Scale: 4, Disp: d, HasDisp: true})
			}
		}
	}
	return s
}

func genC02() []*InstCase {
	g := &instGen{prop: "C02"}
	shapes := c02Shapes()
	k := 0
	for _, mode := range []int{16, 32} {
		for si, sh := range shapes {
			mc := memClass(sh)
			style := si % 4
			num := 1 - (si/4)%2 // hex / decimal
			if sh.Index >= 0 && sh.Base < 0 && sh.Scale == 1 {
				// "[ESI]" alone is a base; index-only needs an explicit scale
				if sh.ASize == 32 {
					continue
				}
			}
			for _, w := range widths {
				k++
				r := xgpr(w, k%8)
				mo := xmem(sh, w, false, style, num)
				mk := xmem(sh, w, true, style, num)
				ws := fmt.Sprintf("w%d", w)
				g.add("MOV", mode, "load", ws+" "+mc, r, mo)
				g.add("MOV", mode, "store", ws+" "+mc, mo, r)
				g.add("MOV", mode, "store-imm", ws+" "+mc, mk, ximm(int64(0x11*(k%7+1)), 1))
				g.add("ADD", mode, "alu-load", ws+" "+mc, r, mo)
				g.add("SUB", mode, "alu-store", ws+" "+mc, mo, r)
				g.add("CMP", mode, "alu-store-imm", ws+" "+mc, mk, ximm(int64(k%5+1), 0))
				g.add("NOT", mode, "not", ws+" "+mc, mk)
				g.add("SHL", mode, "shift", ws+" "+mc, mk, ximm(int64(k%6+2), 0))
				if w != 8 {
					g.add("PUSH", mode, "push", ws+" "+mc, mk)
					g.add("POP", mode, "pop", ws+" "+mc, mk)
				}
				if sh.ASize == 0 {
					acc := xgpr(w, 0)
					g.add("MOV", mode, "moffs-load", ws+" "+mc, acc, mo)
					g.add("MOV", mode, "moffs-store", ws+" "+mc, mo, acc)
				}
			}
		}
	}
	return g.cases
}

// genC02Spellings: the same addresses written through a nested sum -- the whole address behind an EQU name (`LOCAL1 EQU EBP-4` /
// `[LOCAL1]`) or its tail in parentheses (`[EBX+(ESI*4-8)]`, `[(BX-2)]`).  Shapes with a base register and a non-zero displacement.
func genC02Spellings() []*InstCase {
	g := &instGen{prop: "C02"}
	var shapes []MemShape
	for _, b := range []int{3, 5, 4, 0} {
		for _, ix := range [][2]int{{-1, 1}, {6, 1}, {7, 4}, {1, 8}} {
			for _, d := range []int64{-4, -8, -128, -129, -0x100, 8, 0x100} {
				shapes = append(shapes, MemShape{ASize: 32, Base: b, Index: ix[0], Scale: ix[1], Disp: d, HasDisp: true})
			}
		}
	}
	for _, p := range [][2]int{{3, -1}, {5, -1}, {6, -1}, {3, 6}, {5, 7}} {
		for _, d := range []int64{-4, -2, -128, -129, -0x100, 8} {
			shapes = append(shapes, MemShape{ASize: 16, Base: p[0], Index: p[1], Scale: 1, Disp: d, HasDisp: true})
		}
	}
	k := 0
	for si, sh := range shapes {
		modes := []int{16, 32}
		if sh.ASize == 16 {
			modes = []int{16}
		}
		names := regNames[R32]
		if sh.ASize == 16 {
			names = regNames[R16]
		}
		num := si % 2
		inner := sh.render(0, num)
		inner = inner[1 : len(inner)-1]
		d := spellInt(sh.Disp, num)
		if sh.Disp > 0 {
			d = "+" + d
		}
		paren := "[(" + names[sh.Base] + d + ")]"
		if sh.Index >= 0 {
			it := names[sh.Index]
			if sh.Scale > 1 {
				it = fmt.Sprintf("%s*%d", it, sh.Scale)
			}
			paren = "[" + names[sh.Base] + "+(" + it + d + ")]"
		}
		for _, mode := range modes {
			for _, via := range []string{"equ", "paren"} {
				for _, w := range widths {
					k++
					text, pre := paren, ""
					if via == "equ" {
						text, pre = "[MEMX]", "MEMX\tEQU\t"+inner+"\n"
					}
					mk := func(kw bool) XOp {
						o := xmem(sh, w, kw, 0, num)
						o.Text = text
						if kw {
							o.Text = o.KW + " " + text
						}
						return o
					}
					r := xgpr(w, k%8)
					cell := fmt.Sprintf("w%d %s via=%s", w, memClass(sh), via)
					n0 := len(g.cases)
					g.add("MOV", mode, "load", cell, r, mk(false))
					g.add("MOV", mode, "store", cell, mk(false), r)
					g.add("MOV", mode, "store-imm", cell, mk(true), ximm(int64(0x11*(k%7+1)), 1))
					g.add("ADD", mode, "alu-load", cell, r, mk(false))
					g.add("NOT", mode, "not", cell, mk(true))
					for _, c := range g.cases[n0:] {
						c.X.Pre = pre
					}
				}
			}
		}
	}
	return g.cases
}

func init() {
	props["C02"] = propCheck{run: func(env *Env, rep *Report) {
		all := append(genC02(), genC02Spellings()...)
		rep.Rule = "every case is `[BITS m]` + one carrier instruction (MOV/ALU load, store, store-immediate, NOT, shift, PUSH, POP, accumulator moffs) whose memory operand is one point of the complete addressing space " +
			"(16-bit: BX/BP x SI/DI, single base, absolute; 32-bit: base in 8 regs or none x index in 7 regs or none x scale 1/2/4/8; x displacement in {none, 0, +-1, 127, 128, -128, -129, 255, 256, 0x7fff, 0x8000, -0x8000, 0x12345678} and 16-bit wrap-around spellings; absolute addresses also as negative numbers -1,-2,-128,-129,-0x8000, which designate the address they wrap to at the mode's address width), in 4 spellings; shapes with a base and a non-zero displacement also through a nested sum (the whole address behind an EQU name, or its tail in parentheses); " +
			"non-trivial = assembled without diagnostic and the memory operand decoded by the reference decoder (objdump cross-checked); distinct = (addressing class, displacement class, carrier, width, mode) cells"
		cases := all
		if env.Tier == "quick" {
			cases = sampleByCell(NewRand(env.Seed, "C02"), all, 2)
		} else {
			rep.Exhaust = true
		}
		rep.Extra["case_space_size"] = len(all)
		runInstCases(env, rep, cases)
	}}
}
