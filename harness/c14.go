package main

import (
	"bytes"
	"encoding/hex"
	"fmt"
	"strings"
)

// ConcatCase (C14): out(A;B;C) == out(A) ++ out(B) ++ out(C) for label-free,
// position-independent statement sequences in one mode.
// refusedStmts: statements that parse and are then refused with a diagnostic (checked on the unchanged tree)
var refusedStmts = []string{"\tSUB BX,[CX]", "\tADD AX,[CX]", "\tPUSH [CX]", "\tINT 300", "\tOUT 300,AL", "\tINC AX", "\tADC AX,1", "\tMOV AL,BX", "\tMOV AX,nolabel", "\tAND AX,[DX+1]", "\tLEA AX,[BX]", "\tXCHG AX,BX"}

type ConcatCase struct {
	Mode  int       `json:"mode"`
	Parts [][]PStmt `json:"parts"`
	Cell_ string    `json:"cell"`
	// one part is a statement that is refused with a diagnostic: the comparison of bytes is made all the same
	Refused bool `json:"refused,omitempty"`
}

func (c *ConcatCase) Kind() string { return "concat" }
func (c *ConcatCase) Spread() bool { return true }

func (c *ConcatCase) src(parts ...[]PStmt) []byte {
	var b strings.Builder
	if c.Mode == 32 {
		b.WriteString("[BITS 32]\n")
	}
	for _, p := range parts {
		for _, s := range p {
			b.WriteString(s.Line())
			b.WriteByte('\n')
		}
	}
	return []byte(b.String())
}

func (c *ConcatCase) Reqs() []Req {
	var rq []Req
	for _, p := range c.Parts {
		rq = append(rq, Req{Src: c.src(p)})
	}
	rq = append(rq, Req{Src: c.src(c.Parts...)})
	return rq
}

func (c *ConcatCase) Judge(rs []Res, env *Env) Outcome {
	o := Outcome{Cell: c.Cell_}
	partsOK := true
	for i := 0; i < len(rs)-1; i++ {
		if ok, why := env.accepted(&rs[i]); !ok {
			partsOK = false
			o.Note = why
		}
	}
	wholeOK, whyWhole := env.accepted(&rs[len(rs)-1])
	if !partsOK && !wholeOK && !c.Refused {
		o.Status = Rejected
		return o
	}
	if c.Refused {
		// one part is a statement gosk refuses (it parses; pass 1 or code generation reports it): alone and among the others it must be
		// refused alike, and the bytes of the statements around it must be the ones they have without it
		for i := range rs {
			if rs[i].ParseErr != "" || rs[i].Crashed() {
				o.Status, o.Note = Rejected, "parse error / crash"
				return o
			}
		}
		partsOK, wholeOK = true, true
	}
	if partsOK != wholeOK {
		o.Status = Violated
		o.Viols = []Violation{{Sig: fmt.Sprintf("C14|refusal-depends-on-neighbours|m%d", c.Mode),
			Detail: fmt.Sprintf("[BITS %d] every part assembles alone: %v; the parts together assemble: %v (%s %s); program:\n%s", c.Mode, partsOK, wholeOK, o.Note, whyWhole, string(c.src(c.Parts...)))}}
		return o
	}
	var want []byte
	for i := range c.Parts {
		want = append(want, rs[i].Out...)
	}
	got := rs[len(rs)-1].Out
	if bytes.Equal(got, want) {
		o.Status = Held
		return o
	}
	// locate the first part whose bytes differ
	pos, part := 0, -1
	for i := range c.Parts {
		n := len(rs[i].Out)
		if pos+n > len(got) || !bytes.Equal(got[pos:pos+n], rs[i].Out) {
			part = i
			break
		}
		pos += n
	}
	culprit := "?"
	if part >= 0 && len(c.Parts[part]) > 0 {
		culprit = stmtKindOf(c.Parts[part][0])
	}
	o.Status = Violated
	o.Viols = []Violation{{Sig: fmt.Sprintf("C14|concat|m%d|%s", c.Mode, culprit),
		Detail: fmt.Sprintf("[BITS %d] parts assembled separately give %s, assembled together %s (first difference in part %d); program:\n%s",
			c.Mode, hex.EncodeToString(want), hex.EncodeToString(got), part, string(c.src(c.Parts...)))}}
	return o
}

func stmtKindOf(s PStmt) string {
	switch s.K {
	case "inst":
		f := []string{}
		for _, o := range s.X.Ops {
			switch o.Kind {
			case XReg:
				if o.Class == SREG || o.Class == CREG {
					f = append(f, o.Text)
				} else {
					f = append(f, o.Class)
				}
			case XImm:
				f = append(f, "imm")
			case XMem:
				f = append(f, "m")
			}
		}
		return s.X.Mn + " " + strings.Join(f, ",")
	case "data":
		return map[int]string{1: "DB", 2: "DW", 4: "DD"}[s.W]
	}
	return s.K
}

func init() { registerKind("concat", func() Case { return &ConcatCase{} }) }

// sizeSafe: pass 1 sizes the instruction as code generation emits it
// (excludes the constructs of F301-F305).
func sizeSafe(x *XInst) bool {
	switch x.Mn {
	case "IMUL":
		return !(len(x.Ops) == 2 && x.Ops[1].Kind == XImm) // F301
	case "MOV":
		for _, o := range x.Ops {
			if o.Kind == XReg && o.Class == CREG && x.Mode == 32 {
				return false // F302
			}
		}
	case "PUSH", "POP":
		if x.Ops[0].Kind == XReg && x.Ops[0].Class == SREG && x.Ops[0].Reg >= 4 {
			return false // F303
		}
		if x.Ops[0].Kind == XImm {
			return false // F305
		}
	case "INT":
		return x.Ops[0].Val != 3 // F304
	}
	return true
}

// poolStmtSized: a pool statement whose size pass 1 gets right (for programs with labels).
func poolStmtSized(r *Rand, mode int) PStmt {
	for {
		s := poolStmt(r, mode)
		if s.K != "inst" || sizeSafe(s.X) {
			return s
		}
	}
}

func poolStmt(r *Rand, mode int) PStmt {
	switch r.Intn(10) {
	case 0:
		return poolData(r)
	case 1:
		if r.Bool() {
			return PStmt{K: "resb", N: int64(r.Range(0, 40))}
		}
		return poolData(r)
	}
	return PStmt{K: "inst", X: poolInst(r, mode)}
}

func poolSeq(r *Rand, mode, lo, hi int) []PStmt {
	n := r.Range(lo, hi)
	out := make([]PStmt, n)
	for i := range out {
		out[i] = poolStmt(r, mode)
	}
	return out
}

// sharedOperandSeq: 2-5 statements whose memory operand (or immediate) is the same text.
func sharedOperandSeq(r *Rand, mode int) []string {
	mems := []string{"[BX]", "[SI]", "[DI]", "[BX+SI]", "[BP+DI]", "[BX+4]", "[SI+0x100]", "[BP+2]", "[0x1234]"}
	if mode == 32 || r.Chance(1, 4) {
		mems = []string{"[EAX]", "[ESI]", "[ESP]", "[EBX+ECX]", "[EBP+8]", "[ESI+EDI*4]", "[ESP+4]", "[EDX]", "[ECX+0x100]", "[0x12345]"}
	}
	m := Pick(r, mems)
	w := Pick(r, []int{8, 16, 32})
	kw := map[int]string{8: "BYTE", 16: "WORD", 32: "DWORD"}[w]
	regs := map[int][]string{8: {"AL", "CL", "DL", "BL", "AH", "CH", "DH", "BH"}, 16: {"AX", "CX", "DX", "BX", "SP", "BP", "SI", "DI"}, 32: {"EAX", "ECX", "EDX", "EBX", "ESP", "EBP", "ESI", "EDI"}}[w]
	imm := Pick(r, []string{"1", "0x7f", "0x10"})
	forms := []func() string{
		func() string { return fmt.Sprintf("\tMOV %s,%s", Pick(r, regs), m) },
		func() string { return fmt.Sprintf("\tMOV %s,%s", m, Pick(r, regs)) },
		func() string { return fmt.Sprintf("\t%s %s,%s", Pick(r, []string{"ADD", "SUB", "AND", "OR", "XOR", "CMP"}), Pick(r, regs), m) },
		func() string { return fmt.Sprintf("\t%s %s,%s", Pick(r, []string{"ADD", "SUB", "AND", "OR", "XOR", "CMP"}), m, Pick(r, regs)) },
		func() string { return fmt.Sprintf("\t%s %s %s,%s", Pick(r, []string{"ADD", "SUB", "AND", "OR", "XOR", "CMP"}), kw, m, imm) },
		func() string { return fmt.Sprintf("\tMOV %s %s,%s", kw, m, imm) },
		func() string { return fmt.Sprintf("\tNOT %s %s", kw, m) },
		func() string { return fmt.Sprintf("\t%s %s %s,%s", Pick(r, []string{"SHL", "SHR", "SAR"}), kw, m, Pick(r, []string{"1", "3"})) },
	}
	n := r.Range(2, 5)
	var out []string
	for i := 0; i < n; i++ {
		out = append(out, Pick(r, forms)())
	}
	return out
}

func init() {
	props["C14"] = propCheck{run: func(env *Env, rep *Report) {
		env.InitBaseline()
		r := NewRand(env.Seed, "C14")
		n := 2500
		if env.Tier == "thorough" {
			n = 60000
		}
		var cases []Case
		for i := 0; i < n; i++ {
			mode := 16 + 16*(i%2)
			c := &ConcatCase{Mode: mode}
			switch i % 3 {
			case 0: // pair
				c.Parts = [][]PStmt{poolSeq(r, mode, 1, 6), poolSeq(r, mode, 1, 6)}
				c.Cell_ = "pair"
			case 1: // triple
				c.Parts = [][]PStmt{poolSeq(r, mode, 1, 5), poolSeq(r, mode, 1, 5), poolSeq(r, mode, 1, 5)}
				c.Cell_ = "triple"
			default: // single statement inserted into / deleted from a longer program
				k := r.Range(0, 20)
				c.Parts = [][]PStmt{poolSeq(r, mode, k, k), {poolStmt(r, mode)}, poolSeq(r, mode, 20-k, 20-k)}
				c.Cell_ = "insert"
			}
			c.Cell_ = fmt.Sprintf("%s m%d first=%s", c.Cell_, mode, stmtKindOf(c.Parts[1][0]))
			cases = append(cases, c)
		}
		// a statement that gosk refuses, inserted between valid ones (in particular between two identical ones): the valid ones keep their bytes
		for i := 0; i < 150; i++ {
			mode := 16 + 16*(i%2)
			a, b := poolSeq(r, mode, 1, 3), poolSeq(r, mode, 1, 3)
			if i%3 == 0 {
				b = append([]PStmt{a[len(a)-1]}, b...) // the statement after the refused one repeats the one before it
			}
			c := &ConcatCase{Mode: mode, Refused: true}
			c.Parts = [][]PStmt{a, {PStmt{K: "raw", Text: refusedStmts[i%len(refusedStmts)]}}, b}
			c.Cell_ = fmt.Sprintf("refused-between m%d %s", mode, strings.TrimSpace(refusedStmts[i%len(refusedStmts)]))
			cases = append(cases, c)
		}
		// statements whose operand list is empty or that emit nothing (an empty string, only empty strings, RESB 0, ALIGNB 1, an
		// instruction without operands) right behind statements that have operands: nothing of the neighbour may leak into them
		degenerate := []string{"\tDB \"\"", "\tDB \"\",\"\"", "\tRESB 0", "\tALIGNB 1", "\tHLT", "\tNOP", "\tDB \"\",1", "\tDB 2,\"\"", "\tDW 0", "\tDD 0"}
		for i := 0; i < 6*len(degenerate); i++ {
			mode := 16 + 16*(i%2)
			c := &ConcatCase{Mode: mode}
			d := degenerate[(i/2)%len(degenerate)]
			c.Parts = [][]PStmt{poolSeq(r, mode, 1, 3), {PStmt{K: "raw", Text: d}}, poolSeq(r, mode, 1, 3)}
			if i%4 >= 2 {
				c.Parts = append(c.Parts, []PStmt{{K: "raw", Text: degenerate[(i/4)%2]}})
			}
			c.Cell_ = fmt.Sprintf("degenerate m%d %s", mode, strings.TrimSpace(d))
			cases = append(cases, c)
		}
		// statements that share an operand text (the same memory operand, with and without displacement, as the r/m operand of
		// different registers and opcode extensions; the same immediate; the same register): each one alone against all in a row
		nshare := 400
		if env.Tier == "thorough" {
			nshare = 6000
		}
		for i := 0; i < nshare; i++ {
			mode := 16 + 16*(i%2)
			c := &ConcatCase{Mode: mode}
			for _, t := range sharedOperandSeq(r, mode) {
				c.Parts = append(c.Parts, []PStmt{{K: "raw", Text: t}})
			}
			c.Cell_ = fmt.Sprintf("shared-operand m%d n=%d", mode, len(c.Parts))
			cases = append(cases, c)
		}
		// the same relation when what precedes a sequence is LARGE: the sequence then stands at every alignment around the
		// 64 KiB multiples of the image (position independence includes the position in the output file)
		k := 0
		for _, base := range []int64{0x10000, 0x20000, 0x30000} {
			for delta := int64(-6); delta <= 2; delta++ {
				for _, mode := range []int{16, 32} {
					k++
					if env.Tier == "quick" && k%3 != int(env.Seed%3) {
						continue
					}
					c := &ConcatCase{Mode: mode}
					c.Parts = [][]PStmt{{PStmt{K: "resb", N: base + delta}}, poolSeq(r, mode, 3, 6)}
					c.Cell_ = fmt.Sprintf("large-prefix m%d base=%#x delta=%+d", mode, base, delta)
					cases = append(cases, c)
				}
			}
		}
		rep.Rule = "seeded label-free, position-independent statement sequences A,B(,C) from the clean pool (instructions of every supported form, DB/DW/DD, RESB), one mode per program; " +
			"A, B, C and A;B;C are assembled separately by the real pipeline and out(A;B;C) must equal out(A)++out(B)++out(C) (pairs, triples, and a single statement inserted at every position of 20-statement programs); " +
			"the same for 2-5 statements sharing one operand text (the same memory operand with and without displacement as r/m of different registers and opcode extensions), each alone against all in a row; statements with an empty operand list or no bytes (DB of empty strings, RESB 0, ALIGNB 1, operand-less instructions) between such sequences; the same with a statement gosk refuses (12 kinds) inserted between two sequences, the second of which may start with the statement the first ended with; the same with a RESB of 64 KiB, 128 KiB, 192 KiB -6..+2 bytes as A, so that B stands at every alignment around those offsets of the image; non-trivial = all parts accepted without refusal; distinct = (shape, mode, kind of the first statement of B) cells"
		outs := RunCases(env, cases)
		for i := 0; i < 3 && i < len(cases); i++ {
			c := cases[i].(*ConcatCase)
			rep.AddSample(map[string]any{"mode": c.Mode, "program": string(c.src(c.Parts...)), "verdict": outs[i].Status.String()})
		}
		rep.Add(cases, outs)
	}}
}
