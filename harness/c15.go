package main

import (
	"bytes"
	"encoding/hex"
	"fmt"
	"sort"
	"strings"
)

// VariantCase: outputs of textual variants of one program must stand in a
// relation to the output of the base program (C11 C12 C15: byte equality;
// C15 on COFF: equality except symbol names and string table).
type VariantCase struct {
	Prop     string              `json:"prop"`
	Base     []byte              `json:"base"`
	Variants [][]byte            `json:"variants"`
	Labels   []string            `json:"labels"` // what each variant does
	Coff     bool                `json:"coff,omitempty"`
	Names    [][]string          `json:"names,omitempty"` // C15 COFF: expected symbol names per variant (base first)
	Maps     []map[string]string `json:"maps,omitempty"`  // C15 COFF: the renaming of each variant; the external symbols must read back as the renamed base symbols, in the same order
	Twin     string              `json:"twin,omitempty"` // C12 string twins: the variants differ from the base only inside string literals, where the base has the letter 'q' and the variant one of these characters; the outputs may differ in exactly that way
	Cell_    string              `json:"cell"`
}

func (c *VariantCase) Kind() string { return "variant" }
func (c *VariantCase) Reqs() []Req {
	rq := []Req{{Src: c.Base}}
	for _, v := range c.Variants {
		rq = append(rq, Req{Src: v})
	}
	return rq
}

func (c *VariantCase) Judge(rs []Res, env *Env) Outcome {
	o := Outcome{Cell: c.Cell_}
	if ok, why := env.accepted(&rs[0]); !ok {
		// refused in every form is a refusal; refused in one form and assembled in another is a difference in outcome
		for i := range c.Variants {
			if ok2, _ := env.accepted(&rs[i+1]); ok2 {
				o.Status = Violated
				o.Viols = []Violation{{Sig: fmt.Sprintf("%s|%s|%s", c.Prop, strings.SplitN(c.Labels[i], ":", 2)[0], "base-refused"),
					Detail: fmt.Sprintf("the base program is refused (%s), its variant `%s` assembles\n--- base source:\n%s\n--- variant source:\n%s", why, c.Labels[i], clipStr(string(c.Base), 1500), clipStr(string(c.Variants[i]), 1500))}}
				return o
			}
		}
		o.Status, o.Note = Rejected, "base: "+why
		return o
	}
	base := rs[0].Out
	for i := range c.Variants {
		r := rs[i+1]
		lab := c.Labels[i]
		fail := func(kind, detail string) Outcome {
			o.Status = Violated
			o.Viols = []Violation{{Sig: fmt.Sprintf("%s|%s|%s", c.Prop, strings.SplitN(lab, ":", 2)[0], kind),
				Detail: fmt.Sprintf("variant `%s`: %s\n--- base source:\n%s\n--- variant source:\n%s", lab, detail, clipStr(string(c.Base), 1500), clipStr(string(c.Variants[i]), 1500))}}
			return o
		}
		if ok, why := env.accepted(&r); !ok {
			// the base was accepted: a variant that is refused changed the outcome
			return fail("variant-refused", "the base program assembles, the variant is refused ("+why+")")
		}
		if c.Coff {
			if d := coffDiffExceptNames(base, r.Out); d != "" {
				return fail("coff-differs", d)
			}
			if c.Maps != nil {
				var want []string
				for _, n := range coffExternalNames(base) {
					if m, ok := c.Maps[i][n]; ok {
						n = m
					}
					want = append(want, n)
				}
				if got := coffExternalNames(r.Out); fmt.Sprint(got) != fmt.Sprint(want) {
					return fail("coff-names", fmt.Sprintf("the external symbols read back as %v, the renamed symbols of the base object are %v", got, want))
				}
			}
			if c.Names != nil {
				got := coffExternalNames(r.Out)
				if fmt.Sprint(got) != fmt.Sprint(c.Names[i+1]) {
					return fail("coff-names", fmt.Sprintf("symbol names %v, expected %v", got, c.Names[i+1]))
				}
			}
			continue
		}
		if c.Twin != "" {
			if len(base) != len(r.Out) {
				return fail("string-twin-length", fmt.Sprintf("the variant differs from the base only in characters inside string literals, yet the outputs have %d and %d bytes", len(base), len(r.Out)))
			}
			nd := 0
			for k := range base {
				if base[k] != r.Out[k] {
					nd++
					if base[k] != 'q' || !strings.ContainsRune(c.Twin, rune(r.Out[k])) {
						return fail("string-twin-differs", fmt.Sprintf("offset %d: base %02x, variant %02x - not a string character standing for its placeholder", k, base[k], r.Out[k]))
					}
				}
			}
			continue
		}
		if !bytes.Equal(base, r.Out) {
			d := firstDiff(base, r.Out)
			return fail("output-differs", fmt.Sprintf("outputs differ at offset %d: base %s (%d bytes), variant %s (%d bytes)", d,
				hex.EncodeToString(clip(base[minInt(maxInt(d-4, 0), len(base)):], 24)), len(base), hex.EncodeToString(clip(r.Out[minInt(maxInt(d-4, 0), len(r.Out)):], 24)), len(r.Out)))
		}
	}
	o.Status = Held
	return o
}

func coffExternalNames(b []byte) []string {
	f := ParseCoff(b)
	var out []string
	for _, s := range f.Syms {
		if s.Class == 2 {
			out = append(out, s.Name)
		}
	}
	return out
}

// coffDiffExceptNames: everything must be equal except symbol Name fields,
// the string table contents and the quantities that depend on its size.
func coffDiffExceptNames(a, b []byte) string {
	fa, fb := ParseCoff(a), ParseCoff(b)
	if len(fa.Problems) > 0 || len(fb.Problems) > 0 {
		return fmt.Sprintf("not structurally valid: %v / %v", fa.Problems, fb.Problems)
	}
	if !bytes.Equal(fa.Text, fb.Text) {
		return ".text differs"
	}
	if fa.SymPtr != fb.SymPtr || fa.NSyms != fb.NSyms {
		return fmt.Sprintf("symbol table position/count differ: %d/%d vs %d/%d", fa.SymPtr, fa.NSyms, fb.SymPtr, fb.NSyms)
	}
	if !bytes.Equal(a[:int(fa.SymPtr)], b[:int(fb.SymPtr)]) {
		return "headers / section table / raw data differ"
	}
	if len(fa.Syms) != len(fb.Syms) {
		return "different number of symbols"
	}
	for i := range fa.Syms {
		x, y := fa.Syms[i], fb.Syms[i]
		if x.Value != y.Value || x.Section != y.Section || x.Type != y.Type || x.Class != y.Class || x.NAux != y.NAux || !bytes.Equal(x.Aux, y.Aux) {
			return fmt.Sprintf("symbol %d differs beyond its name: %+v vs %+v", i, x, y)
		}
	}
	return ""
}

func init() { registerKind("variant", func() Case { return &VariantCase{} }) }

// ---- C15: renaming -----------------------------------------------------------------

// names the tree's own source spells out in string literals (set by the C15 run; see sourceNames)
var c15SrcFormats, c15SrcPlain []string

func adversarialNames(r *Rand, n int, reserved []string) []string {
	if len(c15SrcFormats)+len(c15SrcPlain) > 0 && r.Chance(1, 4) {
		// the names produced by the tree's own format strings first, then a sample of its other identifier-like literals
		out := append([]string{}, c15SrcFormats...)
		Shuffle(r, out)
		pl := append([]string{}, c15SrcPlain...)
		Shuffle(r, pl)
		taken := map[string]bool{}
		for _, f := range out {
			taken[f] = true
		}
		for _, f := range pl {
			if !taken[f] {
				taken[f] = true
				out = append(out, f)
			}
		}
		for len(out) < n {
			out = append(out, genIdent(r, Pick(r, []int{2, 3, 8, 9}), reserved, taken))
		}
		return out[:n]
	}
	fams := [][]string{
		{"a", "aa", "a_", "A", "aA", "Aa", "a0", "a_a", "_a", "__a", "a__"},
		{"x", "xy", "xyz", "xyzw", "x_", "X", "Xy", "xY"},
		{"name", "name1", "name10", "name_", "names", "nam", "na", "NAME", "Name"},
		{"abcdefgh", "abcdefghi", "abcdefg", "Abcdefgh", "abcdefgh_", "abcdefghij"},
		{"loop", "loop2", "lp", "l", "L", "lo", "loo", "loop_", "LOOP_"},
		// lower-case spellings of registers, mnemonics and keywords, and names of registers gosk does not have: ordinary identifiers
		{"ax", "si", "eax", "cr0", "st0", "mov", "db", "equ", "byte", "dword", "short", "org", "resb"},
		{"kmax", "kbd", "k1", "mm0", "xmm1", "zmm0", "bnd", "ymmword", "r8", "rax", "dr7x"},
		// names beyond the 8 bytes of a COFF name field that contain one another (prefix, infix, suffix), longer one first or second
		{"long_name_alpha", "long_name_alph", "long_name_alpha2", "ong_name_alpha", "long_name", "g_name_al", "long_name_", "xlong_name_alpha"},
		{"_draw_line_fast", "_draw_line", "w_line_fast", "aw_line_fa", "_draw_line_faster", "draw_line_"},
		// words that mean something to the machinery a name passes through (text/template actions and functions, Go method names of
		// the usual container types): to the assembler they are ordinary identifiers
		// names that contain a register name or size keyword in the middle or at the end, end in digits, or are very short
		{"my_eax_val", "line_max", "v_max2", "tax__rate", "sidx", "count_byte", "xword", "p_short", "_face", "tbl16", "v32", "q", "z9", "max", "relax", "n_al", "t_cl_x", "lbx", "kdword"},
		{"String", "Names", "Len", "Error", "Keys", "Get", "Value", "Map", "Index", "Format", "GoString"},
		{"end", "if", "else", "range", "with", "define", "template", "block", "nil", "len", "index", "print", "printf", "html", "slice", "true", "false", "eq", "ne", "lt"},
	}
	fam := append([]string{}, fams[r.Intn(len(fams))]...)
	Shuffle(r, fam)
	var out []string
	for _, f := range fam {
		if len(out) < n && !hasReservedPrefix(f, reserved) {
			out = append(out, f)
		}
	}
	taken := map[string]bool{}
	for _, f := range out {
		taken[f] = true
	}
	for len(out) < n {
		out = append(out, genIdent(r, Pick(r, []int{1, 2, 3, 8, 9, 17, 40}), reserved, taken))
	}
	return out
}

func randomNames(r *Rand, n int, reserved []string) []string {
	taken := map[string]bool{}
	var out []string
	for len(out) < n {
		out = append(out, genIdent(r, r.Range(1, 40), reserved, taken))
	}
	return out
}

func identsOf(p *Prog) []string {
	set := map[string]bool{}
	for _, s := range p.Stmts {
		if s.K == "label" || s.K == "equ" {
			set[s.Label] = true
		}
	}
	var out []string
	for k := range set {
		out = append(out, k)
	}
	sort.Strings(out)
	return out
}

func genC15(r *Rand, reserved []string, nvar int, coff bool) *VariantCase {
	mode := Pick(r, []int{16, 32})
	org := Pick(r, []int64{-1, 0x7c00})
	if coff {
		mode, org = 32, -1
	}
	p, _ := genLabelled(r, mode, org, genOpts{Equs: true, Jumps: true})
	// labels inside memory operands and expressions (positions where the operand text is analysed again after the main parser)
	var labsAll []string
	for _, s := range p.Stmts {
		if s.K == "label" {
			labsAll = append(labsAll, s.Label)
		}
	}
	if len(p.Stmts) > 2 && r.Chance(1, 2) {
		// a branch to a numeric address somewhere in the program (an assembler may invent a helper name for it)
		k := r.Range(1, len(p.Stmts)-1)
		for k < len(p.Stmts)-1 && (p.Stmts[k].K == "org" || p.Stmts[k].K == "bits" || p.Stmts[k].K == "resbto" || p.Stmts[k-1].K == "resbto") {
			k++
		}
		rest := append([]PStmt{}, p.Stmts[k:]...)
		p.Stmts = append(append(p.Stmts[:k:k], PStmt{K: "raw", Text: fmt.Sprintf("\t%s 0x%x", Pick(r, []string{"JMP", "CALL", "JNZ"}), Pick(r, []int{0xc200, 0x7c00, 0x8000, 0x100}))}), rest...)
	}
	if len(labsAll) > 0 && len(p.Stmts) > 1 {
		rn := map[int][]string{16: {"CX", "DX", "BX", "SI"}, 32: {"ECX", "EDX", "EBX", "ESI"}}[mode]
		forms := []string{"\tMOV %s,[%s]", "\tMOV [%s],%s", "\tCMP WORD [%s],0", "\tMOV CL,[%s]", "\tMOV [%s],DL"}
		var extra []PStmt
		for i := r.Range(1, 3); i > 0; i-- {
			f := Pick(r, forms)
			l := Pick(r, labsAll)
			var t string
			switch strings.Count(f, "%s") {
			case 1:
				t = fmt.Sprintf(f, l)
			default:
				if strings.HasPrefix(f, "\tMOV [") {
					t = fmt.Sprintf(f, l, Pick(r, rn))
				} else {
					t = fmt.Sprintf(f, Pick(r, rn), l)
				}
			}
			extra = append(extra, PStmt{K: "raw", Text: t})
		}
		n := len(p.Stmts)
		p.Stmts = append(p.Stmts[:n-1:n-1], append(extra, p.Stmts[n-1])...)
	}
	src := p.Source()
	ids := identsOf(p)
	c := &VariantCase{Prop: "C15", Coff: coff}
	var undef []string
	if coff {
		// export the labels
		var labs []string
		for _, s := range p.Stmts {
			if s.K == "label" {
				labs = append(labs, s.Label)
			}
		}
		// half of the objects also declare names that are defined nowhere (undefined externals): they are renamed like the others
		if r.Bool() {
			for i := r.Range(1, 2); i > 0; i-- {
				u := fmt.Sprintf("zzdecl%d", i)
				undef = append(undef, u)
				labs = append(labs, u)
				ids = append(ids, u)
			}
			Shuffle(r, labs)
		}
		src = "[FORMAT \"WCOFF\"]\n[FILE \"x.nas\"]\n\tGLOBAL " + strings.Join(labs, ", ") + "\n" + src
	}
	c.Base = []byte(src)
	for v := 0; v < nvar; v++ {
		var names []string
		kind := "random"
		if v%2 == 0 {
			names = adversarialNames(r, len(ids), reserved)
			kind = "adversarial"
		} else {
			names = randomNames(r, len(ids), reserved)
		}
		m := map[string]string{}
		for i, id := range ids {
			m[id] = names[i]
		}
		if len(undef) > 0 && len(labsAll) > 0 && v%3 == 1 {
			// a declared-only name that differs from a defined label's name by a leading underscore, a trailing one, or one
			// more character: related spellings are still different symbols
			l := Pick(r, labsAll)
			cand := Pick(r, []string{"_" + m[l], m[l] + "_", m[l] + "2", "__" + m[l]})
			clash := len(cand) > 40 || hasReservedPrefix(cand, reserved)
			for _, used := range m {
				if used == cand {
					clash = true
				}
			}
			if !clash {
				m[undef[0]] = cand
				kind += "+declared-only-relative"
			}
		}
		c.Variants = append(c.Variants, []byte(renameIdents(src, m)))
		c.Labels = append(c.Labels, kind+": "+fmt.Sprint(m))
		if coff {
			c.Maps = append(c.Maps, m)
		}
	}
	c.Cell_ = fmt.Sprintf("m%d org=%d coff=%v ids=%d", mode, org, coff, len(ids)/3)
	return c
}

func init() {
	props["C15"] = propCheck{run: func(env *Env, rep *Report) {
		env.InitBaseline()
		r := NewRand(env.Seed, "C15")
		reserved := reservedPrefixes(env.Repo)
		c15SrcFormats, c15SrcPlain = sourceNames(env.Repo, reserved)
		rep.Extra["names_from_source_formats"] = len(c15SrcFormats)
		rep.Extra["names_from_source_literals"] = len(c15SrcPlain)
		n, nv := 700, 4
		if env.Tier == "thorough" {
			n, nv = 10000, 8
		}
		var cases []Case
		for i := 0; i < n; i++ {
			cases = append(cases, genC15(r, reserved, nv, i%4 == 3))
		}
		rep.Rule = "seeded programs with labels and EQUs (flat 16/32-bit with and without ORG; every fourth as WCOFF with all labels GLOBAL) x injective renamings of all labels and EQU names into [A-Za-z_][A-Za-z0-9_]{0,39}: " +
			"adversarial families (identifier-like string literals of the tree's own Go source and the names its format strings produce; a aa a_ A aA ..; common prefixes/suffixes; case-only differences; 8/9-character names; lower-case spellings of registers/mnemonics/keywords and names of registers of other architectures levels) and random identifiers; names with a reserved word / mnemonic / register name as a prefix are excluded (list read from the tree's two .peg files); " +
			"oracle: flat outputs byte-identical; COFF objects identical except Name fields and string table; programs reference every look-alike name at a different address, so a collision changes bytes; distinct = (mode, origin, format, identifier-count bucket) cells"
		rep.Extra["reserved_prefix_words"] = len(reserved)
		outs := RunCases(env, cases)
		for i := 0; i < len(cases) && len(rep.Samples) < 3; i += len(cases)/3 + 1 {
			vc := cases[i].(*VariantCase)
			rep.AddSample(map[string]any{"base": clipStr(string(vc.Base), 700), "variant": clipStr(string(vc.Variants[0]), 700), "verdict": outs[i].Status.String()})
		}
		rep.Add(cases, outs)
	}}
}
