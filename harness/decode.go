package main

import (
	"fmt"
	"sort"
	"strings"
)

// Reference IA-32 decoder (16- and 32-bit modes), written from the Intel opcode
// maps.  It shares no code or data with gosk.  Output is a semantic record.

type OpKind int

const (
	KReg OpKind = iota
	KImm
	KMem
	KRel
	KFar
)

// register classes
const (
	R8   = "r8"
	R16  = "r16"
	R32  = "r32"
	SREG = "sreg"
	CREG = "creg"
	DREG = "dreg"
	TREG = "treg"
	STR  = "st"
)

var regNames = map[string][]string{
	R8:   {"AL", "CL", "DL", "BL", "AH", "CH", "DH", "BH"},
	R16:  {"AX", "CX", "DX", "BX", "SP", "BP", "SI", "DI"},
	R32:  {"EAX", "ECX", "EDX", "EBX", "ESP", "EBP", "ESI", "EDI"},
	SREG: {"ES", "CS", "SS", "DS", "FS", "GS", "?6", "?7"},
	CREG: {"CR0", "CR1", "CR2", "CR3", "CR4", "CR5", "CR6", "CR7"},
	DREG: {"DR0", "DR1", "DR2", "DR3", "DR4", "DR5", "DR6", "DR7"},
	TREG: {"TR0", "TR1", "TR2", "TR3", "TR4", "TR5", "TR6", "TR7"},
	STR:  {"ST0", "ST1", "ST2", "ST3", "ST4", "ST5", "ST6", "ST7"},
}

type Operand struct {
	Kind  OpKind
	Class string // KReg
	Reg   int    // KReg
	Imm   int64  // KImm (value as encoded, sign- or zero-extended per form), KRel (signed displacement)
	ImmW  int    // width in bits of the encoded field
	// KMem
	ASize int    // 16 / 32
	Size  int    // bits accessed; 0 = not defined by the instruction (LEA, LGDT ...)
	Seg   int    // segment override, -1 none
	Coef  [8]int // coefficient of each register of the ASize register file
	Disp  int64  // signed, normalised to ASize
	// KFar
	Sel  int64
	Off  int64
	OffW int
}

type Inst struct {
	Len     int
	Op      string // canonical operation name
	OpSize  int    // 8/16/32; 0 = not applicable
	Ops     []Operand
	P66     bool
	P67     bool
	Seg     int // -1 none
	Lock    bool
	Rep     bool // F3
	Repne   bool // F2
	NPrefix int
	Bad     string // non-empty: could not decode
}

func regOp(class string, n int) Operand { return Operand{Kind: KReg, Class: class, Reg: n, Seg: -1} }
func immOp(v int64, w int) Operand      { return Operand{Kind: KImm, Imm: v, ImmW: w, Seg: -1} }

func gpr(size, n int) Operand {
	switch size {
	case 8:
		return regOp(R8, n)
	case 16:
		return regOp(R16, n)
	}
	return regOp(R32, n)
}

var ccNames = []string{"O", "NO", "B", "AE", "E", "NE", "BE", "A", "S", "NS", "P", "NP", "L", "GE", "LE", "G"}
var aluNames = []string{"ADD", "OR", "ADC", "SBB", "AND", "SUB", "XOR", "CMP"}
var shiftNames = []string{"ROL", "ROR", "RCL", "RCR", "SHL", "SHR", "SAL", "SAR"}

type dec struct {
	b    []byte
	p    int
	mode int
	err  string
}

func (d *dec) u8() int64 {
	if d.p >= len(d.b) {
		d.err = "truncated"
		d.p++
		return 0
	}
	v := d.b[d.p]
	d.p++
	return int64(v)
}
func (d *dec) s8() int64  { return int64(int8(d.u8())) }
func (d *dec) u16() int64 { lo := d.u8(); hi := d.u8(); return lo | hi<<8 }
func (d *dec) s16() int64 { return int64(int16(d.u16())) }
func (d *dec) u32() int64 { lo := d.u16(); hi := d.u16(); return lo | hi<<16 }
func (d *dec) s32() int64 { return int64(int32(d.u32())) }

// immediate of operand-size width ("Iz"): 16 or 32 bits, reported sign-extended
func (d *dec) iz(osz int) Operand {
	if osz == 16 {
		return immOp(d.s16(), 16)
	}
	return immOp(d.s32(), 32)
}

// modrm decodes a ModR/M byte (and SIB / displacement); returns mod, reg, and
// the r/m operand as memory (Size to be filled in by caller) or register number.
func (d *dec) modrm(asz int, seg int) (mod, reg, rm int, mem Operand) {
	m := int(d.u8())
	mod, reg, rm = m>>6, (m>>3)&7, m&7
	mem = Operand{Kind: KMem, ASize: asz, Seg: seg}
	if mod == 3 {
		return
	}
	if asz == 16 {
		switch rm {
		case 0:
			mem.Coef[3]++
			mem.Coef[6]++
		case 1:
			mem.Coef[3]++
			mem.Coef[7]++
		case 2:
			mem.Coef[5]++
			mem.Coef[6]++
		case 3:
			mem.Coef[5]++
			mem.Coef[7]++
		case 4:
			mem.Coef[6]++
		case 5:
			mem.Coef[7]++
		case 6:
			if mod != 0 {
				mem.Coef[5]++
			}
		case 7:
			mem.Coef[3]++
		}
		switch {
		case mod == 0 && rm == 6:
			mem.Disp = d.s16()
		case mod == 1:
			mem.Disp = d.s8()
		case mod == 2:
			mem.Disp = d.s16()
		}
		return
	}
	// 32-bit addressing
	if rm == 4 {
		sib := int(d.u8())
		sc, idx, base := sib>>6, (sib>>3)&7, sib&7
		if idx != 4 {
			mem.Coef[idx] += 1 << sc
		}
		if base == 5 && mod == 0 {
			mem.Disp = d.s32()
		} else {
			mem.Coef[base]++
		}
	} else if rm == 5 && mod == 0 {
		mem.Disp = d.s32()
	} else {
		mem.Coef[rm]++
	}
	switch mod {
	case 1:
		mem.Disp += d.s8()
		mem.Disp = int64(int32(mem.Disp))
	case 2:
		mem.Disp = d.s32()
	}
	return
}

// Decode decodes one instruction at the start of b in the given mode (16/32).
func Decode(b []byte, mode int) Inst {
	d := &dec{b: b, mode: mode}
	in := Inst{Seg: -1}
	// prefixes
	for {
		if d.p >= len(b) {
			in.Bad = "only prefixes"
			in.Len = d.p
			return in
		}
		c := b[d.p]
		switch c {
		case 0x66:
			in.P66 = true
		case 0x67:
			in.P67 = true
		case 0x26:
			in.Seg = 0
		case 0x2e:
			in.Seg = 1
		case 0x36:
			in.Seg = 2
		case 0x3e:
			in.Seg = 3
		case 0x64:
			in.Seg = 4
		case 0x65:
			in.Seg = 5
		case 0xf0:
			in.Lock = true
		case 0xf2:
			in.Repne = true
		case 0xf3:
			in.Rep = true
		default:
			goto opcode
		}
		d.p++
		in.NPrefix++
		if in.NPrefix > 14 {
			in.Bad = "too many prefixes"
			in.Len = d.p
			return in
		}
	}
opcode:
	osz, asz := mode, mode
	if in.P66 {
		osz = 48 - mode
	}
	if in.P67 {
		asz = 48 - mode
	}
	seg := in.Seg
	op := int(d.u8())

	// helpers for the common operand patterns
	setEG := func(name string, size int, regFirst bool) { // E,G or G,E
		mod, reg, rm, mem := d.modrm(asz, seg)
		var e Operand
		if mod == 3 {
			e = gpr(size, rm)
		} else {
			mem.Size = size
			e = mem
		}
		g := gpr(size, reg)
		in.Op, in.OpSize = name, size
		if regFirst {
			in.Ops = []Operand{g, e}
		} else {
			in.Ops = []Operand{e, g}
		}
	}
	eOnly := func(size int) (int, Operand) { // returns /reg and E operand
		mod, reg, rm, mem := d.modrm(asz, seg)
		if mod == 3 {
			return reg, gpr(size, rm)
		}
		mem.Size = size
		return reg, mem
	}
	rel := func(w int) Operand {
		var v int64
		switch w {
		case 8:
			v = d.s8()
		case 16:
			v = d.s16()
		default:
			v = d.s32()
		}
		return Operand{Kind: KRel, Imm: v, ImmW: w, Seg: -1}
	}
	moffs := func(size int) Operand {
		m := Operand{Kind: KMem, ASize: asz, Size: size, Seg: seg}
		if asz == 16 {
			m.Disp = d.s16()
		} else {
			m.Disp = d.s32()
		}
		return m
	}
	simple := func(name string) { in.Op = name }
	sized := func(name string) { in.Op, in.OpSize = name, osz }

	switch {
	case op < 0x40 && op&7 < 6:
		name := aluNames[op>>3]
		switch op & 7 {
		case 0:
			setEG(name, 8, false)
		case 1:
			setEG(name, osz, false)
		case 2:
			setEG(name, 8, true)
		case 3:
			setEG(name, osz, true)
		case 4:
			in.Op, in.OpSize = name, 8
			in.Ops = []Operand{gpr(8, 0), immOp(d.s8(), 8)}
		case 5:
			in.Op, in.OpSize = name, osz
			in.Ops = []Operand{gpr(osz, 0), d.iz(osz)}
		}
	case op == 0x06 || op == 0x0e || op == 0x16 || op == 0x1e:
		in.Op, in.OpSize = "PUSH", osz
		in.Ops = []Operand{regOp(SREG, op>>3)}
	case op == 0x07 || op == 0x17 || op == 0x1f:
		in.Op, in.OpSize = "POP", osz
		in.Ops = []Operand{regOp(SREG, op>>3)}
	case op == 0x0f:
		decode0F(d, &in, osz, asz, seg)
	case op == 0x27:
		simple("DAA")
	case op == 0x2f:
		simple("DAS")
	case op == 0x37:
		simple("AAA")
	case op == 0x3f:
		simple("AAS")
	case op >= 0x40 && op <= 0x47:
		in.Op, in.OpSize = "INC", osz
		in.Ops = []Operand{gpr(osz, op&7)}
	case op >= 0x48 && op <= 0x4f:
		in.Op, in.OpSize = "DEC", osz
		in.Ops = []Operand{gpr(osz, op&7)}
	case op >= 0x50 && op <= 0x57:
		in.Op, in.OpSize = "PUSH", osz
		in.Ops = []Operand{gpr(osz, op&7)}
	case op >= 0x58 && op <= 0x5f:
		in.Op, in.OpSize = "POP", osz
		in.Ops = []Operand{gpr(osz, op&7)}
	case op == 0x60:
		sized("PUSHA")
	case op == 0x61:
		sized("POPA")
	case op == 0x62:
		mod, reg, _, mem := d.modrm(asz, seg)
		if mod == 3 {
			in.Bad = "BOUND with register"
		}
		in.Op, in.OpSize = "BOUND", osz
		in.Ops = []Operand{gpr(osz, reg), mem}
	case op == 0x63:
		setEG("ARPL", 16, false)
	case op == 0x68:
		in.Op, in.OpSize = "PUSH", osz
		in.Ops = []Operand{d.iz(osz)}
	case op == 0x69:
		setEG("IMUL", osz, true)
		in.Ops = append(in.Ops, d.iz(osz))
	case op == 0x6a:
		in.Op, in.OpSize = "PUSH", osz
		in.Ops = []Operand{immOp(d.s8(), 8)}
	case op == 0x6b:
		setEG("IMUL", osz, true)
		in.Ops = append(in.Ops, immOp(d.s8(), 8))
	case op == 0x6c:
		in.Op, in.OpSize = "INS", 8
	case op == 0x6d:
		sized("INS")
	case op == 0x6e:
		in.Op, in.OpSize = "OUTS", 8
	case op == 0x6f:
		sized("OUTS")
	case op >= 0x70 && op <= 0x7f:
		in.Op = "J" + ccNames[op&15]
		in.OpSize = osz
		in.Ops = []Operand{rel(8)}
	case op == 0x80 || op == 0x82:
		r, e := eOnly(8)
		in.Op, in.OpSize = aluNames[r], 8
		in.Ops = []Operand{e, immOp(d.s8(), 8)}
	case op == 0x81:
		r, e := eOnly(osz)
		in.Op, in.OpSize = aluNames[r], osz
		in.Ops = []Operand{e, d.iz(osz)}
	case op == 0x83:
		r, e := eOnly(osz)
		in.Op, in.OpSize = aluNames[r], osz
		in.Ops = []Operand{e, immOp(d.s8(), 8)}
	case op == 0x84:
		setEG("TEST", 8, false)
	case op == 0x85:
		setEG("TEST", osz, false)
	case op == 0x86:
		setEG("XCHG", 8, false)
	case op == 0x87:
		setEG("XCHG", osz, false)
	case op == 0x88:
		setEG("MOV", 8, false)
	case op == 0x89:
		setEG("MOV", osz, false)
	case op == 0x8a:
		setEG("MOV", 8, true)
	case op == 0x8b:
		setEG("MOV", osz, true)
	case op == 0x8c || op == 0x8e:
		mod, reg, rm, mem := d.modrm(asz, seg)
		var e Operand
		in.Op = "MOV"
		if mod == 3 {
			// MOV r16/r32, Sreg: the operand size only selects how much of the
			// register is written; MOV Sreg, r/m16 ignores it entirely
			e = gpr(osz, rm)
			in.OpSize = osz
		} else {
			mem.Size = 16
			e = mem
			in.OpSize = 16
		}
		if reg > 5 {
			in.Bad = "segment register number > 5"
		}
		if op == 0x8c {
			in.Ops = []Operand{e, regOp(SREG, reg)}
		} else {
			in.Ops = []Operand{regOp(SREG, reg), e}
		}
	case op == 0x8d:
		mod, reg, _, mem := d.modrm(asz, seg)
		if mod == 3 {
			in.Bad = "LEA with register"
		}
		in.Op, in.OpSize = "LEA", osz
		in.Ops = []Operand{gpr(osz, reg), mem}
	case op == 0x8f:
		r, e := eOnly(osz)
		if r != 0 {
			in.Bad = "8F /r with r != 0"
		}
		in.Op, in.OpSize = "POP", osz
		in.Ops = []Operand{e}
	case op == 0x90:
		if in.Rep {
			simple("PAUSE")
		} else {
			simple("NOP")
		}
	case op >= 0x91 && op <= 0x97:
		in.Op, in.OpSize = "XCHG", osz
		in.Ops = []Operand{gpr(osz, 0), gpr(osz, op&7)}
	case op == 0x98:
		sized("CBW") // CBW (16) / CWDE (32)
	case op == 0x99:
		sized("CWD") // CWD (16) / CDQ (32)
	case op == 0x9a || op == 0xea:
		var off int64
		if osz == 16 {
			off = d.u16()
		} else {
			off = d.u32()
		}
		sel := d.u16()
		in.Op, in.OpSize = map[int]string{0x9a: "CALLF", 0xea: "JMPF"}[op], osz
		in.Ops = []Operand{{Kind: KFar, Sel: sel, Off: off, OffW: osz, Seg: -1}}
	case op == 0x9b:
		simple("WAIT")
	case op == 0x9c:
		sized("PUSHF")
	case op == 0x9d:
		sized("POPF")
	case op == 0x9e:
		simple("SAHF")
	case op == 0x9f:
		simple("LAHF")
	case op == 0xa0:
		in.Op, in.OpSize = "MOV", 8
		in.Ops = []Operand{gpr(8, 0), moffs(8)}
	case op == 0xa1:
		in.Op, in.OpSize = "MOV", osz
		in.Ops = []Operand{gpr(osz, 0), moffs(osz)}
	case op == 0xa2:
		in.Op, in.OpSize = "MOV", 8
		in.Ops = []Operand{moffs(8), gpr(8, 0)}
	case op == 0xa3:
		in.Op, in.OpSize = "MOV", osz
		in.Ops = []Operand{moffs(osz), gpr(osz, 0)}
	case op >= 0xa4 && op <= 0xa7, op >= 0xaa && op <= 0xaf:
		name := map[int]string{0xa4: "MOVS", 0xa6: "CMPS", 0xaa: "STOS", 0xac: "LODS", 0xae: "SCAS"}[op&^1]
		if op&1 == 0 {
			in.Op, in.OpSize = name, 8
		} else {
			sized(name)
		}
	case op == 0xa8:
		in.Op, in.OpSize = "TEST", 8
		in.Ops = []Operand{gpr(8, 0), immOp(d.s8(), 8)}
	case op == 0xa9:
		in.Op, in.OpSize = "TEST", osz
		in.Ops = []Operand{gpr(osz, 0), d.iz(osz)}
	case op >= 0xb0 && op <= 0xb7:
		in.Op, in.OpSize = "MOV", 8
		in.Ops = []Operand{gpr(8, op&7), immOp(d.s8(), 8)}
	case op >= 0xb8 && op <= 0xbf:
		in.Op, in.OpSize = "MOV", osz
		in.Ops = []Operand{gpr(osz, op&7), d.iz(osz)}
	case op == 0xc0 || op == 0xc1:
		size := 8
		if op == 0xc1 {
			size = osz
		}
		r, e := eOnly(size)
		in.Op, in.OpSize = shiftNames[r], size
		in.Ops = []Operand{e, immOp(d.u8(), 8)}
	case op == 0xc2:
		in.Op, in.OpSize = "RET", osz
		in.Ops = []Operand{immOp(d.u16(), 16)}
	case op == 0xc3:
		sized("RET")
	case op == 0xc4 || op == 0xc5:
		mod, reg, _, mem := d.modrm(asz, seg)
		if mod == 3 {
			in.Bad = "LES/LDS with register"
		}
		in.Op, in.OpSize = map[int]string{0xc4: "LES", 0xc5: "LDS"}[op], osz
		in.Ops = []Operand{gpr(osz, reg), mem}
	case op == 0xc6:
		r, e := eOnly(8)
		if r != 0 {
			in.Bad = "C6 /r with r != 0"
		}
		in.Op, in.OpSize = "MOV", 8
		in.Ops = []Operand{e, immOp(d.s8(), 8)}
	case op == 0xc7:
		r, e := eOnly(osz)
		if r != 0 {
			in.Bad = "C7 /r with r != 0"
		}
		in.Op, in.OpSize = "MOV", osz
		in.Ops = []Operand{e, d.iz(osz)}
	case op == 0xc8:
		a := d.u16()
		bb := d.u8()
		in.Op, in.OpSize = "ENTER", osz
		in.Ops = []Operand{immOp(a, 16), immOp(bb, 8)}
	case op == 0xc9:
		sized("LEAVE")
	case op == 0xca:
		in.Op, in.OpSize = "RETF", osz
		in.Ops = []Operand{immOp(d.u16(), 16)}
	case op == 0xcb:
		sized("RETF")
	case op == 0xcc:
		simple("INT3")
	case op == 0xcd:
		in.Op = "INT"
		in.Ops = []Operand{immOp(d.u8(), 8)}
	case op == 0xce:
		simple("INTO")
	case op == 0xcf:
		sized("IRET")
	case op >= 0xd0 && op <= 0xd3:
		size := 8
		if op&1 == 1 {
			size = osz
		}
		r, e := eOnly(size)
		in.Op, in.OpSize = shiftNames[r], size
		if op < 0xd2 {
			in.Ops = []Operand{e, immOp(1, 0)}
		} else {
			in.Ops = []Operand{e, gpr(8, 1)}
		}
	case op == 0xd4:
		in.Op = "AAM"
		in.Ops = []Operand{immOp(d.u8(), 8)}
	case op == 0xd5:
		in.Op = "AAD"
		in.Ops = []Operand{immOp(d.u8(), 8)}
	case op == 0xd6:
		simple("SALC")
	case op == 0xd7:
		simple("XLAT")
	case op >= 0xd8 && op <= 0xdf:
		decodeX87(d, &in, op, asz, seg)
	case op >= 0xe0 && op <= 0xe3:
		in.Op = []string{"LOOPNE", "LOOPE", "LOOP", "JCXZ"}[op-0xe0]
		in.OpSize = osz
		in.Ops = []Operand{rel(8)}
		if op == 0xe3 && asz == 32 {
			in.Op = "JECXZ"
		}
	case op == 0xe4:
		in.Op, in.OpSize = "IN", 8
		in.Ops = []Operand{gpr(8, 0), immOp(d.u8(), 8)}
	case op == 0xe5:
		in.Op, in.OpSize = "IN", osz
		in.Ops = []Operand{gpr(osz, 0), immOp(d.u8(), 8)}
	case op == 0xe6:
		in.Op, in.OpSize = "OUT", 8
		in.Ops = []Operand{immOp(d.u8(), 8), gpr(8, 0)}
	case op == 0xe7:
		in.Op, in.OpSize = "OUT", osz
		in.Ops = []Operand{immOp(d.u8(), 8), gpr(osz, 0)}
	case op == 0xe8:
		in.Op, in.OpSize = "CALL", osz
		in.Ops = []Operand{rel(osz)}
	case op == 0xe9:
		in.Op, in.OpSize = "JMP", osz
		in.Ops = []Operand{rel(osz)}
	case op == 0xeb:
		in.Op, in.OpSize = "JMP", osz
		in.Ops = []Operand{rel(8)}
	case op == 0xec:
		in.Op, in.OpSize = "IN", 8
		in.Ops = []Operand{gpr(8, 0), gpr(16, 2)}
	case op == 0xed:
		in.Op, in.OpSize = "IN", osz
		in.Ops = []Operand{gpr(osz, 0), gpr(16, 2)}
	case op == 0xee:
		in.Op, in.OpSize = "OUT", 8
		in.Ops = []Operand{gpr(16, 2), gpr(8, 0)}
	case op == 0xef:
		in.Op, in.OpSize = "OUT", osz
		in.Ops = []Operand{gpr(16, 2), gpr(osz, 0)}
	case op == 0xf1:
		simple("ICEBP")
	case op == 0xf4:
		simple("HLT")
	case op == 0xf5:
		simple("CMC")
	case op == 0xf6 || op == 0xf7:
		size := 8
		if op == 0xf7 {
			size = osz
		}
		r, e := eOnly(size)
		in.Op, in.OpSize = []string{"TEST", "TEST", "NOT", "NEG", "MUL", "IMUL", "DIV", "IDIV"}[r], size
		in.Ops = []Operand{e}
		if r < 2 {
			if size == 8 {
				in.Ops = append(in.Ops, immOp(d.s8(), 8))
			} else {
				in.Ops = append(in.Ops, d.iz(size))
			}
		}
	case op >= 0xf8 && op <= 0xfd:
		simple([]string{"CLC", "STC", "CLI", "STI", "CLD", "STD"}[op-0xf8])
	case op == 0xfe:
		r, e := eOnly(8)
		if r > 1 {
			in.Bad = "FE /r with r > 1"
		} else {
			in.Op, in.OpSize = []string{"INC", "DEC"}[r], 8
			in.Ops = []Operand{e}
		}
	case op == 0xff:
		r, e := eOnly(osz)
		in.OpSize = osz
		in.Ops = []Operand{e}
		switch r {
		case 0:
			in.Op = "INC"
		case 1:
			in.Op = "DEC"
		case 2:
			in.Op = "CALL"
		case 3:
			in.Op = "CALLF"
			in.Ops[0].Size = 0
		case 4:
			in.Op = "JMP"
		case 5:
			in.Op = "JMPF"
			in.Ops[0].Size = 0
		case 6:
			in.Op = "PUSH"
		default:
			in.Bad = "FF /7"
		}
	default:
		in.Bad = fmt.Sprintf("unknown opcode %02x", op)
	}
	in.Len = d.p
	if d.err != "" {
		in.Bad = d.err
		if in.Len > len(b) {
			in.Len = len(b)
		}
	}
	return in
}

func decode0F(d *dec, in *Inst, osz, asz, seg int) {
	op := int(d.u8())
	eOnly := func(size int) (int, int, Operand) {
		mod, reg, rm, mem := d.modrm(asz, seg)
		if mod == 3 {
			return mod, reg, gpr(size, rm)
		}
		mem.Size = size
		return mod, reg, mem
	}
	setEG := func(name string, size int, regFirst bool) {
		_, reg, e := eOnly(size)
		g := gpr(size, reg)
		in.Op, in.OpSize = name, size
		if regFirst {
			in.Ops = []Operand{g, e}
		} else {
			in.Ops = []Operand{e, g}
		}
	}
	switch {
	case op == 0x00:
		mod, r, e := eOnly(16)
		_ = mod
		names := []string{"SLDT", "STR", "LLDT", "LTR", "VERR", "VERW"}
		if r > 5 {
			in.Bad = "0F 00 /r > 5"
			return
		}
		in.Op = names[r]
		if e.Kind == KReg && r < 2 {
			e = gpr(osz, e.Reg)
		}
		in.Ops = []Operand{e}
	case op == 0x01:
		save := d.p
		m := int(d.u8())
		if m>>6 == 3 {
			spec := map[int]string{0xc1: "VMCALL", 0xc2: "VMLAUNCH", 0xc3: "VMRESUME", 0xc4: "VMXOFF", 0xc8: "MONITOR", 0xc9: "MWAIT",
				0xd0: "XGETBV", 0xd1: "XSETBV", 0xf8: "SWAPGS", 0xf9: "RDTSCP"}
			if n, ok := spec[m]; ok {
				in.Op = n
				return
			}
			r := (m >> 3) & 7
			if r == 4 {
				in.Op = "SMSW"
				in.Ops = []Operand{gpr(osz, m&7)}
				return
			}
			if r == 6 {
				in.Op = "LMSW"
				in.Ops = []Operand{gpr(16, m&7)}
				return
			}
			in.Bad = fmt.Sprintf("0F 01 %02x", m)
			return
		}
		d.p = save
		_, r, _, mem := d.modrm(asz, seg)
		names := []string{"SGDT", "SIDT", "LGDT", "LIDT", "SMSW", "", "LMSW", "INVLPG"}
		if names[r] == "" {
			in.Bad = "0F 01 /5"
			return
		}
		in.Op = names[r]
		if r == 4 || r == 6 {
			mem.Size = 16
		}
		if r < 4 {
			in.OpSize = osz
		}
		in.Ops = []Operand{mem}
	case op == 0x02:
		setEG("LAR", osz, true)
	case op == 0x03:
		setEG("LSL", osz, true)
	case op == 0x05:
		in.Op = "SYSCALL"
	case op == 0x06:
		in.Op = "CLTS"
	case op == 0x07:
		in.Op = "SYSRET"
	case op == 0x08:
		in.Op = "INVD"
	case op == 0x09:
		in.Op = "WBINVD"
	case op == 0x0b:
		in.Op = "UD2"
	case op >= 0x20 && op <= 0x23, op == 0x24, op == 0x26:
		m := int(d.u8())
		reg, rm := (m>>3)&7, m&7
		cls := map[int]string{0x20: CREG, 0x22: CREG, 0x21: DREG, 0x23: DREG, 0x24: TREG, 0x26: TREG}[op]
		in.Op, in.OpSize = "MOV", 32
		if op == 0x20 || op == 0x21 || op == 0x24 {
			in.Ops = []Operand{gpr(32, rm), regOp(cls, reg)}
		} else {
			in.Ops = []Operand{regOp(cls, reg), gpr(32, rm)}
		}
	case op == 0x30:
		in.Op = "WRMSR"
	case op == 0x31:
		in.Op = "RDTSC"
	case op == 0x32:
		in.Op = "RDMSR"
	case op == 0x33:
		in.Op = "RDPMC"
	case op == 0x34:
		in.Op = "SYSENTER"
	case op == 0x35:
		in.Op = "SYSEXIT"
	case op == 0x37:
		in.Op = "GETSEC"
	case op >= 0x40 && op <= 0x4f:
		setEG("CMOV"+ccNames[op&15], osz, true)
	case op == 0x77:
		in.Op = "EMMS"
	case op >= 0x80 && op <= 0x8f:
		in.Op, in.OpSize = "J"+ccNames[op&15], osz
		var v int64
		if osz == 16 {
			v = d.s16()
		} else {
			v = d.s32()
		}
		in.Ops = []Operand{{Kind: KRel, Imm: v, ImmW: osz, Seg: -1}}
	case op >= 0x90 && op <= 0x9f:
		_, _, e := eOnly(8)
		in.Op, in.OpSize = "SET"+ccNames[op&15], 8
		in.Ops = []Operand{e}
	case op == 0xa0 || op == 0xa8:
		in.Op, in.OpSize = "PUSH", osz
		in.Ops = []Operand{regOp(SREG, 4+(op>>3)&1)}
	case op == 0xa1 || op == 0xa9:
		in.Op, in.OpSize = "POP", osz
		in.Ops = []Operand{regOp(SREG, 4+(op>>3)&1)}
	case op == 0xa2:
		in.Op = "CPUID"
	case op == 0xa3:
		setEG("BT", osz, false)
	case op == 0xab:
		setEG("BTS", osz, false)
	case op == 0xb3:
		setEG("BTR", osz, false)
	case op == 0xbb:
		setEG("BTC", osz, false)
	case op == 0xa4 || op == 0xac:
		setEG(map[int]string{0xa4: "SHLD", 0xac: "SHRD"}[op], osz, false)
		in.Ops = append(in.Ops, immOp(d.u8(), 8))
	case op == 0xa5 || op == 0xad:
		setEG(map[int]string{0xa5: "SHLD", 0xad: "SHRD"}[op], osz, false)
		in.Ops = append(in.Ops, gpr(8, 1))
	case op == 0xaa:
		in.Op = "RSM"
	case op == 0xae:
		save := d.p
		m := int(d.u8())
		if m>>6 == 3 {
			switch m {
			case 0xe8:
				in.Op = "LFENCE"
			case 0xf0:
				in.Op = "MFENCE"
			case 0xf8:
				in.Op = "SFENCE"
			default:
				in.Bad = fmt.Sprintf("0F AE %02x", m)
			}
			return
		}
		d.p = save
		_, r, _, mem := d.modrm(asz, seg)
		names := []string{"FXSAVE", "FXRSTOR", "LDMXCSR", "STMXCSR", "XSAVE", "XRSTOR", "XSAVEOPT", "CLFLUSH"}
		in.Op = names[r]
		in.Ops = []Operand{mem}
	case op == 0xaf:
		setEG("IMUL", osz, true)
	case op == 0xb0:
		setEG("CMPXCHG", 8, false)
	case op == 0xb1:
		setEG("CMPXCHG", osz, false)
	case op == 0xb2 || op == 0xb4 || op == 0xb5:
		mod, reg, _, mem := d.modrm(asz, seg)
		if mod == 3 {
			in.Bad = "Lxs with register"
		}
		in.Op, in.OpSize = map[int]string{0xb2: "LSS", 0xb4: "LFS", 0xb5: "LGS"}[op], osz
		in.Ops = []Operand{gpr(osz, reg), mem}
	case op == 0xb6 || op == 0xb7 || op == 0xbe || op == 0xbf:
		src := 8
		if op&1 == 1 {
			src = 16
		}
		_, reg, e := eOnly(src)
		in.Op, in.OpSize = map[int]string{0xb6: "MOVZX", 0xbe: "MOVSX"}[op&^1], osz
		in.Ops = []Operand{gpr(osz, reg), e}
	case op == 0xba:
		_, r, e := eOnly(osz)
		if r < 4 {
			in.Bad = "0F BA /r < 4"
			return
		}
		in.Op, in.OpSize = []string{"BT", "BTS", "BTR", "BTC"}[r-4], osz
		in.Ops = []Operand{e, immOp(d.u8(), 8)}
	case op == 0xbc:
		setEG("BSF", osz, true)
	case op == 0xbd:
		setEG("BSR", osz, true)
	case op == 0xc0:
		setEG("XADD", 8, false)
	case op == 0xc1:
		setEG("XADD", osz, false)
	case op >= 0xc8 && op <= 0xcf:
		in.Op, in.OpSize = "BSWAP", 32
		in.Ops = []Operand{gpr(32, op&7)}
	default:
		in.Bad = fmt.Sprintf("unknown opcode 0f %02x", op)
	}
}

// x87: register-only forms that gosk's mnemonic list contains get their names;
// everything else decodes to a generic "X87" with the right length.
var x87names = map[[2]byte]string{
	{0xd9, 0xd0}: "FNOP", {0xd9, 0xe0}: "FCHS", {0xd9, 0xe1}: "FABS", {0xd9, 0xe4}: "FTST", {0xd9, 0xe5}: "FXAM",
	{0xd9, 0xe8}: "FLD1", {0xd9, 0xe9}: "FLDL2T", {0xd9, 0xea}: "FLDL2E", {0xd9, 0xeb}: "FLDPI", {0xd9, 0xec}: "FLDLG2",
	{0xd9, 0xed}: "FLDLN2", {0xd9, 0xee}: "FLDZ", {0xd9, 0xf0}: "F2XM1", {0xd9, 0xf1}: "FYL2X", {0xd9, 0xf2}: "FPTAN",
	{0xd9, 0xf3}: "FPATAN", {0xd9, 0xf4}: "FXTRACT", {0xd9, 0xf5}: "FPREM1", {0xd9, 0xf6}: "FDECSTP", {0xd9, 0xf7}: "FINCSTP",
	{0xd9, 0xf8}: "FPREM", {0xd9, 0xf9}: "FYL2XP1", {0xd9, 0xfa}: "FSQRT", {0xd9, 0xfb}: "FSINCOS", {0xd9, 0xfc}: "FRNDINT",
	{0xd9, 0xfd}: "FSCALE", {0xd9, 0xfe}: "FSIN", {0xd9, 0xff}: "FCOS",
	{0xda, 0xe9}: "FUCOMPP", {0xdb, 0xe0}: "FNENI", {0xdb, 0xe1}: "FNDISI", {0xdb, 0xe2}: "FNCLEX", {0xdb, 0xe3}: "FNINIT",
	{0xdb, 0xe4}: "FNSETPM", {0xde, 0xd9}: "FCOMPP", {0xdf, 0xe0}: "FNSTSW_AX",
}

func decodeX87(d *dec, in *Inst, op, asz, seg int) {
	save := d.p
	m := int(d.u8())
	if m>>6 == 3 {
		if n, ok := x87names[[2]byte{byte(op), byte(m)}]; ok {
			in.Op = n
			return
		}
		// ST(i) forms
		grp := (m >> 3) & 7
		i := m & 7
		name := ""
		switch op {
		case 0xd8:
			name = []string{"FADD", "FMUL", "FCOM", "FCOMP", "FSUB", "FSUBR", "FDIV", "FDIVR"}[grp]
		case 0xd9:
			name = []string{"FLD", "FXCH", "", "", "", "", "", ""}[grp]
		case 0xdc:
			name = []string{"FADD_TO", "FMUL_TO", "", "", "FSUBR_TO", "FSUB_TO", "FDIVR_TO", "FDIV_TO"}[grp]
		case 0xdd:
			name = []string{"FFREE", "", "FST", "FSTP", "FUCOM", "FUCOMP", "", ""}[grp]
		case 0xde:
			name = []string{"FADDP", "FMULP", "", "", "FSUBRP", "FSUBP", "FDIVRP", "FDIVP"}[grp]
		}
		if name == "" {
			name = fmt.Sprintf("X87_%02X_%02X", op, m)
			in.Op = name
			return
		}
		in.Op = name
		in.Ops = []Operand{regOp(STR, i)}
		return
	}
	d.p = save
	_, r, _, mem := d.modrm(asz, seg)
	in.Op = fmt.Sprintf("X87_%02X_/%d", op, r)
	in.Ops = []Operand{mem}
}

// ---- printing -------------------------------------------------------------

func (o Operand) String() string {
	switch o.Kind {
	case KReg:
		if ns, ok := regNames[o.Class]; ok && o.Reg >= 0 && o.Reg < 8 {
			return ns[o.Reg]
		}
		return fmt.Sprintf("%s#%d", o.Class, o.Reg)
	case KImm:
		return fmt.Sprintf("imm%d:%#x", o.ImmW, uint64(o.Imm)&widthMask(maxInt(o.ImmW, 8)))
	case KRel:
		return fmt.Sprintf("rel%d:%+d", o.ImmW, o.Imm)
	case KFar:
		return fmt.Sprintf("far %#x:%#x(%d)", o.Sel, o.Off, o.OffW)
	case KMem:
		var terms []string
		names := regNames[R32]
		if o.ASize == 16 {
			names = regNames[R16]
		}
		for i, c := range o.Coef {
			if c == 1 {
				terms = append(terms, names[i])
			} else if c != 0 {
				terms = append(terms, fmt.Sprintf("%s*%d", names[i], c))
			}
		}
		sort.Strings(terms)
		s := strings.Join(terms, "+")
		if o.Disp != 0 || s == "" {
			if s == "" {
				s = fmt.Sprintf("%#x", uint64(o.Disp)&widthMask(o.ASize))
			} else {
				s += fmt.Sprintf("%+d", o.Disp)
			}
		}
		sz := map[int]string{8: "BYTE ", 16: "WORD ", 32: "DWORD ", 0: ""}[o.Size]
		sg := ""
		if o.Seg >= 0 {
			sg = regNames[SREG][o.Seg] + ":"
		}
		return fmt.Sprintf("%s%s[%s](a%d)", sz, sg, s, o.ASize)
	}
	return "?"
}

func (in Inst) String() string {
	if in.Bad != "" {
		return "(bad: " + in.Bad + ")"
	}
	var ops []string
	for _, o := range in.Ops {
		ops = append(ops, o.String())
	}
	p := ""
	if in.Lock {
		p += "LOCK "
	}
	if in.Rep {
		p += "REP "
	}
	if in.Repne {
		p += "REPNE "
	}
	return fmt.Sprintf("%s%s.%d %s [len %d]", p, in.Op, in.OpSize, strings.Join(ops, ","), in.Len)
}

func widthMask(w int) uint64 {
	if w >= 64 {
		return ^uint64(0)
	}
	return (uint64(1) << uint(w)) - 1
}

func maxInt(a, b int) int {
	if a > b {
		return a
	}
	return b
}
