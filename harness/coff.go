package main

import (
	"bytes"
	"debug/pe"
	"encoding/binary"
	"fmt"
)

// Strict reader/validator of the i386 COFF object layout (C08 C09 C15), plus
// Go's debug/pe as an independent in-process reader.

type CoffSym struct {
	Name    string
	RawName [8]byte
	Value   uint32
	Section int16
	Type    uint16
	Class   uint8
	NAux    uint8
	Aux     []byte
	Index   int
}

type CoffSec struct {
	Name                        string
	Size, PtrRaw, PtrRel, PtrLn uint32
	NRel, NLn                   uint16
	Chars                       uint32
}

type CoffFile struct {
	Machine  uint16
	NSec     uint16
	SymPtr   uint32
	NSyms    uint32
	OptSize  uint16
	Secs     []CoffSec
	Syms     []CoffSym
	StrTab   []byte // including the 4-byte length field
	Text     []byte
	Problems []string
}

func cstr(b []byte) string {
	if i := bytes.IndexByte(b, 0); i >= 0 {
		return string(b[:i])
	}
	return string(b)
}

// ParseCoff parses and validates; Problems lists every structural defect.
func ParseCoff(b []byte) *CoffFile {
	f := &CoffFile{}
	bad := func(format string, a ...any) { f.Problems = append(f.Problems, fmt.Sprintf(format, a...)) }
	if len(b) < 20 {
		bad("file has %d bytes, shorter than a COFF header", len(b))
		return f
	}
	le := binary.LittleEndian
	f.Machine = le.Uint16(b[0:])
	f.NSec = le.Uint16(b[2:])
	f.SymPtr = le.Uint32(b[8:])
	f.NSyms = le.Uint32(b[12:])
	f.OptSize = le.Uint16(b[16:])
	if f.Machine != 0x14c {
		bad("machine %#x, expected 0x14c", f.Machine)
	}
	if f.NSec != 3 {
		bad("%d sections, expected 3", f.NSec)
	}
	if f.OptSize != 0 {
		bad("optional header size %d in an object file", f.OptSize)
	}
	hdrEnd := 20 + int(f.OptSize) + 40*int(f.NSec)
	if hdrEnd > len(b) {
		bad("section table (ends at %d) exceeds the file (%d bytes)", hdrEnd, len(b))
		return f
	}
	for i := 0; i < int(f.NSec); i++ {
		h := b[20+int(f.OptSize)+40*i:]
		s := CoffSec{Name: cstr(h[0:8]), Size: le.Uint32(h[16:]), PtrRaw: le.Uint32(h[20:]), PtrRel: le.Uint32(h[24:]), PtrLn: le.Uint32(h[28:]),
			NRel: le.Uint16(h[32:]), NLn: le.Uint16(h[34:]), Chars: le.Uint32(h[36:])}
		f.Secs = append(f.Secs, s)
	}
	want := []string{".text", ".data", ".bss"}
	for i, s := range f.Secs {
		if i < 3 && s.Name != want[i] {
			bad("section %d is named %q, expected %q", i+1, s.Name, want[i])
		}
	}
	symEnd := int64(f.SymPtr) + 18*int64(f.NSyms)
	if f.NSyms > 0 && (int64(f.SymPtr) < int64(hdrEnd) || symEnd > int64(len(b))) {
		bad("symbol table [%d,%d) is not inside the file (header ends %d, file %d bytes)", f.SymPtr, symEnd, hdrEnd, len(b))
		return f
	}
	type span struct {
		lo, hi int64
		what   string
	}
	var spans []span
	spans = append(spans, span{0, int64(hdrEnd), "headers"})
	for i, s := range f.Secs {
		isBss := s.Chars&0x80 != 0
		if s.Size > 0 && !isBss {
			lo, hi := int64(s.PtrRaw), int64(s.PtrRaw)+int64(s.Size)
			if lo < int64(hdrEnd) || hi > int64(len(b)) {
				bad("raw data of section %d [%d,%d) is not inside the file", i+1, lo, hi)
			} else {
				spans = append(spans, span{lo, hi, "raw data of " + s.Name})
				if i == 0 {
					f.Text = b[lo:hi]
				}
			}
		}
		if s.NRel > 0 {
			lo, hi := int64(s.PtrRel), int64(s.PtrRel)+10*int64(s.NRel)
			if lo < int64(hdrEnd) || hi > int64(len(b)) {
				bad("relocations of section %d [%d,%d) are not inside the file", i+1, lo, hi)
			} else {
				spans = append(spans, span{lo, hi, "relocations of " + s.Name})
			}
		}
		if s.NLn > 0 {
			bad("section %d claims %d line numbers", i+1, s.NLn)
		}
	}
	if f.Text == nil {
		f.Text = []byte{}
	}
	spans = append(spans, span{int64(f.SymPtr), symEnd, "symbol table"})
	// string table
	if symEnd+4 > int64(len(b)) {
		bad("no room for the string-table length field after the symbol table (symbols end at %d, file %d bytes)", symEnd, len(b))
		return f
	}
	strLen := int64(le.Uint32(b[symEnd:]))
	if strLen < 4 {
		bad("string-table length field is %d (< 4)", strLen)
		strLen = 4
	}
	if symEnd+strLen != int64(len(b)) {
		bad("string table: length field says %d bytes, %d bytes remain up to the end of the file", strLen, int64(len(b))-symEnd)
	}
	if symEnd+strLen <= int64(len(b)) {
		f.StrTab = b[symEnd : symEnd+strLen]
	} else {
		f.StrTab = b[symEnd:]
	}
	spans = append(spans, span{symEnd, symEnd + strLen, "string table"})
	for i := range spans {
		for j := i + 1; j < len(spans); j++ {
			if spans[i].lo < spans[j].hi && spans[j].lo < spans[i].hi && spans[i].hi > spans[i].lo && spans[j].hi > spans[j].lo {
				bad("%s [%d,%d) overlaps %s [%d,%d)", spans[i].what, spans[i].lo, spans[i].hi, spans[j].what, spans[j].lo, spans[j].hi)
			}
		}
	}
	// symbols
	i := 0
	for i < int(f.NSyms) {
		rec := b[int(f.SymPtr)+18*i:]
		s := CoffSym{Value: le.Uint32(rec[8:]), Section: int16(le.Uint16(rec[12:])), Type: le.Uint16(rec[14:]), Class: rec[16], NAux: rec[17], Index: i}
		copy(s.RawName[:], rec[0:8])
		if le.Uint32(rec[0:]) == 0 && le.Uint32(rec[4:]) != 0 {
			off := int(le.Uint32(rec[4:]))
			if off < 4 || off >= len(f.StrTab) {
				bad("symbol %d: long-name offset %d is outside the string table (%d bytes)", i, off, len(f.StrTab))
			} else {
				if off > 4 && f.StrTab[off-1] != 0 {
					bad("symbol %d: long-name offset %d points into the middle of a string of the string table", i, off)
				}
				end := bytes.IndexByte(f.StrTab[off:], 0)
				if end < 0 {
					bad("symbol %d: long name at offset %d is not NUL-terminated inside the string table", i, off)
					s.Name = string(f.StrTab[off:])
				} else {
					s.Name = string(f.StrTab[off : off+end])
				}
			}
		} else {
			s.Name = cstr(rec[0:8])
			// an inline name shorter than eight bytes is padded with NUL bytes up to the end of the field
			for k := len(s.Name); k < 8; k++ {
				if rec[k] != 0 {
					bad("symbol %d: inline name field % x is not NUL-padded after %q", i, rec[0:8], s.Name)
					break
				}
			}
		}
		if int(s.Section) > int(f.NSec) || s.Section < -2 {
			bad("symbol %d (%s): section number %d out of range", i, s.Name, s.Section)
		}
		if i+1+int(s.NAux) > int(f.NSyms) {
			bad("symbol %d (%s) claims %d auxiliary records but only %d records remain: the symbol count %d does not match the records", i, s.Name, s.NAux, int(f.NSyms)-i-1, f.NSyms)
			f.Syms = append(f.Syms, s)
			break
		}
		if s.NAux > 0 {
			s.Aux = b[int(f.SymPtr)+18*(i+1) : int(f.SymPtr)+18*(i+1+int(s.NAux))]
		}
		f.Syms = append(f.Syms, s)
		i += 1 + int(s.NAux)
	}
	// section symbols (static, value 0, named like their section): the auxiliary record repeats the section's length and counts
	for _, s := range f.Syms {
		if s.Class != 3 || s.Section < 1 || int(s.Section) > len(f.Secs) || s.NAux != 1 || len(s.Aux) < 18 {
			continue
		}
		sec := f.Secs[s.Section-1]
		if s.Name != sec.Name {
			continue
		}
		if l := le.Uint32(s.Aux[0:]); l != sec.Size {
			bad("auxiliary record of the section symbol %s says length %d, the section header says %d", s.Name, l, sec.Size)
		}
		if n := le.Uint16(s.Aux[4:]); uint32(n) != uint32(sec.NRel) {
			bad("auxiliary record of the section symbol %s says %d relocations, the section header says %d", s.Name, n, sec.NRel)
		}
		if n := le.Uint16(s.Aux[6:]); n != 0 {
			bad("auxiliary record of the section symbol %s says %d line numbers", s.Name, n)
		}
	}
	return f
}

// crossReadPE: the independent reader (debug/pe) must accept the object and
// see the same sections and symbols.
func crossReadPE(b []byte, f *CoffFile) []string {
	var probs []string
	pf, err := pe.NewFile(bytes.NewReader(b))
	if err != nil {
		return []string{"debug/pe rejects the file: " + err.Error()}
	}
	defer pf.Close()
	if len(pf.Sections) != len(f.Secs) {
		probs = append(probs, fmt.Sprintf("debug/pe sees %d sections, the validator %d", len(pf.Sections), len(f.Secs)))
	}
	if int(pf.FileHeader.NumberOfSymbols) != len(pf.COFFSymbols) {
		probs = append(probs, fmt.Sprintf("debug/pe read %d symbol records, header says %d", len(pf.COFFSymbols), pf.FileHeader.NumberOfSymbols))
	}
	// names of the primary records
	var mine []string
	for _, s := range f.Syms {
		mine = append(mine, s.Name)
	}
	var theirs []string
	for i := 0; i < len(pf.COFFSymbols); {
		cs := pf.COFFSymbols[i]
		n, err := cs.FullName(pf.StringTable)
		if err != nil {
			probs = append(probs, fmt.Sprintf("debug/pe cannot resolve the name of symbol %d: %v", i, err))
			n = "?"
		}
		theirs = append(theirs, n)
		i += 1 + int(cs.NumberOfAuxSymbols)
	}
	if fmt.Sprint(mine) != fmt.Sprint(theirs) {
		probs = append(probs, fmt.Sprintf("symbol names differ: validator %v, debug/pe %v", mine, theirs))
	}
	if len(pf.Sections) > 0 {
		d, err := pf.Sections[0].Data()
		if err != nil {
			probs = append(probs, "debug/pe cannot read .text: "+err.Error())
		} else if !bytes.Equal(d, f.Text) {
			probs = append(probs, "debug/pe and the validator disagree about the bytes of .text")
		}
	}
	return probs
}
