package main

// splitmix64: every random choice in the harness comes from a stream derived
// from (VERIF_SEED, a label).  No map iteration order, no clock.
type Rand struct{ s uint64 }

func hashString(s string) uint64 {
	var h uint64 = 0xcbf29ce484222325
	for i := 0; i < len(s); i++ {
		h ^= uint64(s[i])
		h *= 0x100000001b3
	}
	return h
}

func NewRand(seed int64, label string) *Rand {
	r := &Rand{s: uint64(seed)*0x9e3779b97f4a7c15 ^ hashString(label)}
	r.U64()
	r.U64()
	return r
}

func (r *Rand) U64() uint64 {
	r.s += 0x9e3779b97f4a7c15
	z := r.s
	z = (z ^ (z >> 30)) * 0xbf58476d1ce4e5b9
	z = (z ^ (z >> 27)) * 0x94d049bb133111eb
	return z ^ (z >> 31)
}

// Intn returns a value in [0,n).
func (r *Rand) Intn(n int) int {
	if n <= 0 {
		return 0
	}
	return int(r.U64() % uint64(n))
}

// Range returns a value in [lo,hi].
func (r *Rand) Range(lo, hi int) int { return lo + r.Intn(hi-lo+1) }

func (r *Rand) Bool() bool { return r.U64()&1 == 1 }

// Chance returns true with probability num/den.
func (r *Rand) Chance(num, den int) bool { return r.Intn(den) < num }

func (r *Rand) Fork(label string) *Rand { return &Rand{s: r.U64() ^ hashString(label)} }

func Pick[T any](r *Rand, xs []T) T { return xs[r.Intn(len(xs))] }

func Shuffle[T any](r *Rand, xs []T) {
	for i := len(xs) - 1; i > 0; i-- {
		j := r.Intn(i + 1)
		xs[i], xs[j] = xs[j], xs[i]
	}
}

// Sample returns k distinct elements (all of xs if k >= len).
func Sample[T any](r *Rand, xs []T, k int) []T {
	c := append([]T(nil), xs...)
	if k >= len(c) {
		return c
	}
	for i := 0; i < k; i++ {
		j := i + r.Intn(len(c)-i)
		c[i], c[j] = c[j], c[i]
	}
	return c[:k]
}
