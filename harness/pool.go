package main

import (
	"bufio"
	"encoding/json"
	"fmt"
	"os"
	"os/exec"
	"path/filepath"
	"strconv"
	"strings"
	"sync"
	"syscall"
	"time"
)

// Req is one assemble request for the worker (see /verif/worker/main.go).
type Req struct {
	ID      int    `json:"id"`
	Src     []byte `json:"src"`
	Stats   bool   `json:"stats,omitempty"`
	Keep    string `json:"keep,omitempty"`
	Reuse   string `json:"reuse,omitempty"`
	Out     string `json:"out,omitempty"`
	Prefill []byte `json:"prefill,omitempty"`
	NoExec  bool   `json:"noexec,omitempty"`
}

// Res is what was observed for one request.
type Res struct {
	ID       int      `json:"id"`
	ParseErr string   `json:"perr,omitempty"`
	Panic    string   `json:"panic,omitempty"`
	Stack    string   `json:"stack,omitempty"`
	Out      []byte   `json:"out"`
	OutMiss  bool     `json:"outmiss,omitempty"`
	OutSize  int64    `json:"outsize,omitempty"`
	Log      []string `json:"log,omitempty"`
	Stdout   string   `json:"stdout,omitempty"`
	Steps    uint64   `json:"steps,omitempty"`
	CPUus    int64    `json:"cpu_us"`
	Executed bool     `json:"executed,omitempty"`

	// filled in by the harness when the worker process ended during the request
	Died     bool   `json:"died,omitempty"`
	ExitCode int    `json:"exit_code,omitempty"`
	Signal   string `json:"signal,omitempty"`
	Stderr   string `json:"stderr,omitempty"`
	TimedOut bool   `json:"timed_out,omitempty"` // CPU watchdog fired
	Infra    string `json:"infra,omitempty"`     // harness-side failure: result unusable
}

// OK: parsed, executed, returned normally.
func (r *Res) OK() bool {
	return r.Infra == "" && !r.Died && r.ParseErr == "" && r.Panic == "" && r.Executed
}

// Crashed: a runtime panic / fatal error (not a diagnosed os.Exit).
func (r *Res) Crashed() bool {
	if r.Panic != "" {
		return true
	}
	if r.Died && !r.TimedOut {
		if r.Signal != "" {
			return true
		}
		if strings.Contains(r.Stderr, "panic:") || strings.Contains(r.Stderr, "fatal error:") || r.ExitCode == 2 {
			return true
		}
	}
	return false
}

type worker struct {
	idx     int
	dir     string
	cmd     *exec.Cmd
	in      *bufio.Writer
	inPipe  interface{ Close() error }
	out     *bufio.Reader
	errPath string
	alive   bool
}

type Pool struct {
	bin      string
	root     string // scratch root (one sub-directory per worker)
	n        int
	cpuLimit time.Duration // per request CPU budget (0 = default)
	mu       sync.Mutex
	nextDir  int
	Restarts int
	Requests int
	// HangFuse: once this many requests have exceeded their CPU budget, RunGrouped hands out no further requests (their results
	// are marked as not run, which the judges report as inconclusive).  Every one of those hangs is a decided verdict already; going
	// on would spend a minute of CPU time on each further hanging input and let the whole-run watchdog cut the run before anything
	// is reported.  0 = no fuse.  The unchanged tree has one input of this kind (finding F1302).
	HangFuse int
	hangs    int
}

// limitFor: the CPU budget of one request.  gosk needs about 2 ms of CPU time
// per statement (measured on the pinned commit: 12 500 lines of `MOV AX,1`,
// 125 KB, take 30 s), so a fixed budget would call a large input a hang; the
// budget grows by 1 ms per input byte, which is 4-5 times what the slowest
// linear family needs and still ends anything that does not terminate.
func (p *Pool) limitFor(srcLen int) time.Duration {
	return p.cpuLimit + time.Duration(srcLen)*time.Millisecond
}

func NewPool(bin, root string, n int) *Pool {
	return &Pool{bin: bin, root: root, n: n, cpuLimit: 60 * time.Second}
}

func (p *Pool) newWorker() (*worker, error) {
	p.mu.Lock()
	p.nextDir++
	d := filepath.Join(p.root, fmt.Sprintf("w%04d", p.nextDir))
	p.mu.Unlock()
	if err := os.MkdirAll(d, 0o755); err != nil {
		return nil, err
	}
	w := &worker{dir: d, errPath: filepath.Join(d, "stderr.txt")}
	if err := w.start(p.bin); err != nil {
		return nil, err
	}
	return w, nil
}

func (w *worker) start(bin string) error {
	cmd := exec.Command(bin, w.dir)
	cmd.Dir = w.dir
	ef, err := os.Create(w.errPath)
	if err != nil {
		return err
	}
	cmd.Stderr = ef
	stdin, err := cmd.StdinPipe()
	if err != nil {
		return err
	}
	stdout, err := cmd.StdoutPipe()
	if err != nil {
		return err
	}
	// a deterministic environment for gosk itself
	cmd.Env = []string{"PATH=/usr/bin:/bin", "TZ=UTC", "LANG=C", "HOME=" + w.dir, "GOTRACEBACK=single"}
	if err := cmd.Start(); err != nil {
		return err
	}
	ef.Close()
	w.cmd = cmd
	w.in = bufio.NewWriterSize(stdin, 1<<20)
	w.inPipe = stdin
	w.out = bufio.NewReaderSize(stdout, 1<<20)
	w.alive = true
	return nil
}

func (w *worker) stop() {
	if w.cmd == nil {
		return
	}
	if w.alive {
		w.inPipe.Close()
		done := make(chan struct{})
		go func() { w.cmd.Wait(); close(done) }()
		select {
		case <-done:
		case <-time.After(5 * time.Second):
			w.cmd.Process.Kill()
			<-done
		}
		w.alive = false
	}
	os.RemoveAll(w.dir)
}

func procCPU(pid int) time.Duration {
	b, err := os.ReadFile(fmt.Sprintf("/proc/%d/stat", pid))
	if err != nil {
		return 0
	}
	s := string(b)
	i := strings.LastIndexByte(s, ')')
	if i < 0 {
		return 0
	}
	f := strings.Fields(s[i+1:])
	if len(f) < 13 {
		return 0
	}
	ut, _ := strconv.ParseInt(f[11], 10, 64)
	st, _ := strconv.ParseInt(f[12], 10, 64)
	return time.Duration(ut+st) * 10 * time.Millisecond // USER_HZ = 100
}

// do sends one request and waits for its response, the worker's death, or the
// CPU watchdog.  Wall-clock time never decides anything here: the watchdog
// looks at the CPU time the worker process has consumed since the request
// was sent.
func (p *Pool) do(w *worker, req Req) Res {
	p.mu.Lock()
	p.Requests++
	p.mu.Unlock()
	if !w.alive {
		if err := w.start(p.bin); err != nil {
			return Res{ID: req.ID, Infra: "cannot start worker: " + err.Error()}
		}
		p.mu.Lock()
		p.Restarts++
		p.mu.Unlock()
	}
	j, _ := json.Marshal(req)
	// journal: the in-flight request is on disk before the worker sees it
	os.WriteFile(filepath.Join(w.dir, "inflight.json"), j, 0o644)
	cpu0 := procCPU(w.cmd.Process.Pid)
	w.in.Write(j)
	w.in.WriteByte('\n')
	if err := w.in.Flush(); err != nil {
		// worker already gone
	}
	type rd struct {
		line []byte
		err  error
	}
	ch := make(chan rd, 1)
	go func() {
		l, err := w.out.ReadBytes('\n')
		ch <- rd{l, err}
	}()
	timedOut := false
	tick := time.NewTicker(500 * time.Millisecond)
	defer tick.Stop()
	for {
		select {
		case r := <-ch:
			if r.err == nil {
				var res Res
				if e := json.Unmarshal(r.line, &res); e != nil {
					return Res{ID: req.ID, Infra: "bad response: " + e.Error()}
				}
				return res
			}
			// EOF: the worker process ended while handling this request
			err := w.cmd.Wait()
			w.alive = false
			res := Res{ID: req.ID, Died: true, TimedOut: timedOut, Executed: true}
			if ee, ok := err.(*exec.ExitError); ok {
				if ws, ok := ee.Sys().(syscall.WaitStatus); ok {
					if ws.Signaled() {
						res.Signal = ws.Signal().String()
					} else {
						res.ExitCode = ws.ExitStatus()
					}
				}
			}
			if b, e := os.ReadFile(w.errPath); e == nil {
				if len(b) > 6000 {
					b = append(b[:3000:3000], b[len(b)-3000:]...)
				}
				res.Stderr = string(b)
			}
			if b, e := os.ReadFile(filepath.Join(w.dir, "stdout.capture")); e == nil {
				res.Stdout = string(b)
			}
			name := req.Out
			if name == "" {
				name = "out.bin"
			}
			if b, e := os.ReadFile(filepath.Join(w.dir, filepath.Base(name))); e == nil {
				res.Out = b
			} else {
				res.OutMiss = true
			}
			return res
		case <-tick.C:
			if !timedOut && procCPU(w.cmd.Process.Pid)-cpu0 > p.limitFor(len(req.Src)) {
				timedOut = true
				p.mu.Lock()
				p.hangs++
				p.mu.Unlock()
				w.cmd.Process.Signal(syscall.SIGKILL)
			}
		}
	}
}

// RunSeqs runs every sequence on its own fresh worker process, in order.
// Sequences are distributed over at most p.n concurrent workers.
func (p *Pool) RunSeqs(seqs [][]Req) [][]Res {
	out := make([][]Res, len(seqs))
	var wg sync.WaitGroup
	next := 0
	var mu sync.Mutex
	n := p.n
	if n > len(seqs) {
		n = len(seqs)
	}
	for k := 0; k < n; k++ {
		wg.Add(1)
		go func() {
			defer wg.Done()
			for {
				mu.Lock()
				i := next
				next++
				mu.Unlock()
				if i >= len(seqs) {
					return
				}
				w, err := p.newWorker()
				rs := make([]Res, len(seqs[i]))
				if err != nil {
					for j := range rs {
						rs[j] = Res{Infra: "cannot start worker: " + err.Error()}
					}
					out[i] = rs
					continue
				}
				for j, rq := range seqs[i] {
					rq.ID = j
					rs[j] = p.do(w, rq)
				}
				w.stop()
				out[i] = rs
			}
		}()
	}
	wg.Wait()
	return out
}

// RunAll runs independent requests; request i goes to worker i mod n, so the
// assignment (and hence any history effect) is the same in every run.
func (p *Pool) RunAll(reqs []Req) []Res {
	n := p.n
	if n > len(reqs) {
		n = len(reqs)
	}
	if n == 0 {
		return nil
	}
	out := make([]Res, len(reqs))
	var wg sync.WaitGroup
	for k := 0; k < n; k++ {
		wg.Add(1)
		go func(k int) {
			defer wg.Done()
			w, err := p.newWorker()
			for i := k; i < len(reqs); i += n {
				if err != nil {
					out[i] = Res{Infra: "cannot start worker: " + err.Error()}
					continue
				}
				rq := reqs[i]
				rq.ID = i
				out[i] = p.do(w, rq)
			}
			if w != nil {
				w.stop()
			}
		}(k)
	}
	wg.Wait()
	return out
}

// RunGrouped runs groups of requests; the requests of one group go to the same
// worker process back to back (group g goes to worker g mod n), so that a case
// made of several assemblies observes them as one process would.
func (p *Pool) RunGrouped(groups [][]Req) [][]Res {
	n := p.n
	if n > len(groups) {
		n = len(groups)
	}
	out := make([][]Res, len(groups))
	if n == 0 {
		return out
	}
	var wg sync.WaitGroup
	for k := 0; k < n; k++ {
		wg.Add(1)
		go func(k int) {
			defer wg.Done()
			w, err := p.newWorker()
			for g := k; g < len(groups); g += n {
				rs := make([]Res, len(groups[g]))
				for j, rq := range groups[g] {
					if err != nil {
						rs[j] = Res{Infra: "cannot start worker: " + err.Error()}
						continue
					}
					p.mu.Lock()
					blown := p.HangFuse > 0 && p.hangs >= p.HangFuse
					p.mu.Unlock()
					if blown {
						rs[j] = Res{Infra: "not run: the hang fuse has blown (inputs exceeding their CPU budget are reported; the rest of the run is cut short)"}
						continue
					}
					rq.ID = j
					rs[j] = p.do(w, rq)
				}
				out[g] = rs
			}
			if w != nil {
				w.stop()
			}
		}(k)
	}
	wg.Wait()
	return out
}
