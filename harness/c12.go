package main

import (
	"fmt"
	"os"
	"path/filepath"
	"sort"
	"strings"
)

// C12: comments, spacing and line endings never change the output.

var commentTexts = []string{"comment", " a, b ; c # d", "\"quoted\" 'single' [BX+SI]", "MOV AX,1", "日本語のコメント", "tab\there", "", "   ", "L0: DB 1", "--- === ---", "0x90 EQU 5"}

func wsRun(r *Rand, min int) string {
	n := r.Range(min, min+2)
	s := ""
	for i := 0; i < n; i++ {
		if r.Chance(1, 3) {
			s += "\t"
		} else {
			s += " "
		}
	}
	return s
}

// relayoutLine varies whitespace at every gap of one statement line where NASK
// lexically allows it, leaving string literals untouched.
func relayoutLine(r *Rand, line string) string {
	trim := strings.TrimLeft(line, " \t")
	if trim == "" {
		return wsRun(r, 0)
	}
	isLabel := strings.HasSuffix(trim, ":") && !strings.ContainsAny(trim, " \t\"")
	var b strings.Builder
	if isLabel || !strings.HasPrefix(line, "\t") && !strings.HasPrefix(line, " ") {
		// labels, EQU lines and bracket directives start at column 0 in the canonical layout; indentation is optional
		if r.Chance(1, 2) {
			b.WriteString(wsRun(r, 0))
		}
	} else {
		b.WriteString(wsRun(r, r.Intn(2)))
	}
	if isLabel {
		b.WriteString(trim)
		return b.String()
	}
	inStr := false
	prevSig := byte(0) // previous significant (non-space) character outside strings
	for i := 0; i < len(trim); i++ {
		c := trim[i]
		if inStr {
			b.WriteByte(c)
			if c == '"' {
				inStr = false
				prevSig = c
			}
			continue
		}
		switch {
		case c == '"':
			inStr = true
			b.WriteByte(c)
		case c == ' ' || c == '\t':
			// an existing gap: keep at least one blank
			for i+1 < len(trim) && (trim[i+1] == ' ' || trim[i+1] == '\t') {
				i++
			}
			b.WriteString(wsRun(r, 1))
		case c == ',' || c == '+' || c == '*' || c == '/' || c == '%':
			b.WriteString(wsRun(r, 0))
			b.WriteByte(c)
			b.WriteString(wsRun(r, 0))
			prevSig = c
		case c == '-':
			// in the canonical renderings a unary minus is always directly followed by a digit and
			// preceded by a blank, ',', '(', '[' or an operator; every other '-' is binary
			unary := i+1 < len(trim) && trim[i+1] >= '0' && trim[i+1] <= '9' && (i == 0 || strings.IndexByte(" \t,([+-*/%", trim[i-1]) >= 0)
			if !unary {
				b.WriteString(wsRun(r, 0))
				b.WriteByte(c)
				b.WriteString(wsRun(r, 0))
			} else {
				b.WriteByte(c)
			}
			prevSig = c
		case c == '[':
			b.WriteByte(c)
			// "[BITS 32]" style directives: no blank between '[' and the keyword
			if prevSig != 0 {
				b.WriteString(wsRun(r, 0))
			}
			prevSig = c
		case c == ']':
			if !strings.HasPrefix(trim, "[") {
				b.WriteString(wsRun(r, 0))
			}
			b.WriteByte(c)
			prevSig = c
		case c == '(':
			b.WriteByte(c)
			b.WriteString(wsRun(r, 0))
			prevSig = c
		case c == ')':
			b.WriteString(wsRun(r, 0))
			b.WriteByte(c)
			prevSig = c
		default:
			b.WriteByte(c)
			prevSig = c
		}
	}
	return b.String()
}

// relayout produces a token-preserving re-layout of a canonical source.
func relayout(r *Rand, src string, style int) (string, string) {
	lines := strings.Split(strings.TrimSuffix(src, "\n"), "\n")
	var out []string
	desc := []string{}
	commentCh := func() string { return Pick(r, []string{";", "#"}) }
	for i, ln := range lines {
		isLabel := strings.HasSuffix(strings.TrimSpace(ln), ":")
		if style != 1 && r.Chance(1, 5) {
			switch r.Intn(3) {
			case 0:
				out = append(out, "")
			case 1:
				out = append(out, wsRun(r, 0)+commentCh()+Pick(r, commentTexts))
			default:
				out = append(out, wsRun(r, 1))
			}
		}
		l := ln
		if style != 2 {
			l = relayoutLine(r, ln)
		}
		if style != 1 && r.Chance(1, 3) {
			l += wsRun(r, 0) + commentCh() + Pick(r, commentTexts)
		} else if r.Chance(1, 4) {
			l += wsRun(r, 1) // trailing whitespace
		}
		_ = isLabel
		_ = i
		out = append(out, l)
	}
	eol := "\n"
	switch r.Intn(4) {
	case 1:
		eol = "\r\n"
		desc = append(desc, "crlf")
	case 2:
		eol = "\r"
		desc = append(desc, "cr")
	default:
		desc = append(desc, "lf")
	}
	s := strings.Join(out, eol)
	lastCode := out[len(out)-1]
	if k := strings.IndexAny(lastCode, ";#"); k >= 0 {
		lastCode = lastCode[:k]
	}
	lastIsLabel := strings.HasSuffix(strings.TrimSpace(lastCode), ":") || strings.TrimSpace(lastCode) == ""
	_ = lastIsLabel // until /repo 'fix: a label on the last line needs no final newline' a label had to be followed by a line end
	if r.Chance(2, 3) {
		s += eol
		if r.Chance(1, 4) {
			s += eol + eol
		}
		if r.Chance(1, 3) {
			// layout-only lines after the last statement: a comment, blanks, a tab, with or without a line end of their own
			tails := []string{"; end of file", "\t", "    ", "  # done", "", ";", "\t; last"}
			for k := r.Range(1, 3); k > 0; k-- {
				s += Pick(r, tails)
				if k > 1 || r.Bool() {
					s += eol
				}
			}
			desc = append(desc, "layout-lines-at-end")
		}
	} else {
		desc = append(desc, "no-final-newline")
	}
	switch style {
	case 1:
		desc = append(desc, "whitespace-only")
	case 2:
		desc = append(desc, "comments-only")
	default:
		desc = append(desc, "mixed")
	}
	return s, strings.Join(desc, "+")
}

func genC12(r *Rand, nvar int) *VariantCase {
	mode := Pick(r, []int{16, 32})
	org := Pick(r, []int64{-1, 0x7c00})
	p, _ := genLabelled(r, mode, org, genOpts{Equs: r.Bool(), Jumps: true})
	// string literals containing ; # , must remain data
	n := len(p.Stmts)
	strs := PStmt{K: "data", W: 1}
	for i := 0; i < 3; i++ {
		strs.Items = append(strs.Items, strItem(Pick(r, c05Strings)), numItem(int64(r.Intn(256)), r.Intn(2)))
	}
	// name lists of one to four names (every comma of a list is a gap of its own)
	p.Stmts = append(p.Stmts[:n-1], strs, PStmt{K: "global", Text: Pick(r, []string{"_g1, _g2", "_g1", "_g1, _g2, _g3", "_g1, _g2, _g3, _g4"})}, p.Stmts[n-1])
	if r.Chance(1, 3) {
		p.Stmts = append(p.Stmts[:n-1:n-1], append([]PStmt{{K: "extern", Text: Pick(r, []string{"_e1, _e2, _e3", "_e1, _e2", "_e1, _e2, _e3, _e4, _e5"})}}, p.Stmts[n-1:]...)...)
	}
	switch r.Intn(4) {
	case 0:
		// the file ends in an instruction without operands (a grammar rule of its own), in a data statement, or in a directive
		p.Stmts = append(p.Stmts, PStmt{K: "raw", Text: "\t" + Pick(r, []string{"HLT", "RET", "NOP", "CLI", "STI"})})
	case 1:
		p.Stmts = append(p.Stmts, PStmt{K: "raw", Text: Pick(r, []string{"\tDB 1,2", "\tRESB 3", "\tGLOBAL _g3", "[FILE \"end.nas\"]", "ENDK\tEQU\t5"})})
	}
	src := p.Source()
	c := &VariantCase{Prop: "C12", Base: []byte(src)}
	for v := 0; v < nvar; v++ {
		s, d := relayout(r, src, v%3)
		c.Variants = append(c.Variants, []byte(s))
		c.Labels = append(c.Labels, d)
	}
	c.Cell_ = fmt.Sprintf("m%d org=%d lines=%d", mode, org, len(p.Stmts)/10)
	return c
}

// genC12Twin: "';', '#' and ',' inside strings remain data" needs a reference that does not contain them: the base program has the
// letter q wherever the variant has one of those characters inside a string literal ([FILE "..."] names - they reach the .file record
// of an object - and DB strings).  Both must assemble, to outputs that differ only by those characters.
func genC12Twin(r *Rand) *VariantCase {
	coff := r.Bool()
	name := Pick(r, []string{"aqb.c", "q", "qq.nas", "dir/aqbqc.nas", "naskfunc.q", "q.nas", "a qb.nas", "x.nasq"})
	str := Pick(r, []string{"q", "aqb", "helloq world", "qqq", "q q", "MOV AX,1q", "[q]", "semi q colon"})
	build := func(sub func(string) string) string {
		var b strings.Builder
		if coff {
			b.WriteString("[FORMAT \"WCOFF\"]\n[INSTRSET \"i486p\"]\n[BITS 32]\n")
		}
		b.WriteString("[FILE \"" + sub(name) + "\"]\n")
		if coff {
			b.WriteString("\tGLOBAL _f\n[SECTION .text]\n")
		}
		b.WriteString("_f:\n\tDB \"" + sub(str) + "\",0x11\n\tMOV AL,5\n\tDB 1,\"" + sub(str) + "\"\n\tRET\n")
		return b.String()
	}
	c := &VariantCase{Prop: "C12", Twin: ";#,", Base: []byte(build(func(s string) string { return s }))}
	for v := 0; v < 4; v++ {
		ch := ";#,"[v%3 : v%3+1]
		if v == 3 {
			k := 0
			c.Variants = append(c.Variants, []byte(build(func(s string) string {
				out := []byte(s)
				for i := range out {
					if out[i] == 'q' {
						out[i] = ";#,"[k%3]
						k++
					}
				}
				return string(out)
			})))
			c.Labels = append(c.Labels, "string-twin mixed")
			continue
		}
		c.Variants = append(c.Variants, []byte(build(func(s string) string { return strings.ReplaceAll(s, "q", ch) })))
		c.Labels = append(c.Labels, "string-twin "+ch)
	}
	c.Cell_ = fmt.Sprintf("string-twin coff=%v name=%s", coff, name)
	return c
}

// loadCorpus: the book programs copied from /repo/test into /verif/corpus/book.
func loadCorpus(env *Env) map[string]string {
	out := map[string]string{}
	files, _ := filepath.Glob(filepath.Join(env.Verif, "corpus", "book", "*.nas"))
	sort.Strings(files)
	for _, f := range files {
		if b, err := os.ReadFile(f); err == nil {
			out[filepath.Base(f)] = string(b)
		}
	}
	return out
}

// relayoutRaw: line-level re-layout of a source whose tokens are not known:
// own-line comments, blank lines, leading/trailing whitespace, line endings.
func relayoutRaw(r *Rand, src string) (string, string) {
	lines := strings.Split(strings.TrimSuffix(src, "\n"), "\n")
	var out []string
	for _, ln := range lines {
		if r.Chance(1, 6) {
			out = append(out, Pick(r, []string{"", "; " + Pick(r, commentTexts), "\t# " + Pick(r, commentTexts), "   "}))
		}
		trim := strings.TrimLeft(ln, " \t")
		l := ln
		if trim != "" && r.Chance(1, 2) {
			l = wsRun(r, 0) + trim
			if strings.HasPrefix(ln, "\t") || strings.HasPrefix(ln, " ") {
				l = wsRun(r, 1) + trim
			}
		}
		if r.Chance(1, 4) {
			l += wsRun(r, 1)
		}
		out = append(out, l)
	}
	eol := Pick(r, []string{"\n", "\r\n", "\r"})
	return strings.Join(out, eol) + eol, map[string]string{"\n": "lf", "\r\n": "crlf", "\r": "cr"}[eol] + "+raw-lines"
}

func init() {
	props["C12"] = propCheck{needCLI: true, run: func(env *Env, rep *Report) {
		env.InitBaseline()
		r := NewRand(env.Seed, "C12")
		n, nv := 400, 6
		if env.Tier == "thorough" {
			n, nv = 5000, 12
		}
		var cases []Case
		for i := 0; i < n; i++ {
			cases = append(cases, genC12(r, nv))
		}
		for i := 0; i < n/10; i++ {
			cases = append(cases, genC12Twin(r))
		}
		corpus := loadCorpus(env)
		var cnames []string
		for k := range corpus {
			cnames = append(cnames, k)
		}
		sort.Strings(cnames)
		for _, k := range cnames {
			c := &VariantCase{Prop: "C12", Base: []byte(corpus[k]), Cell_: "corpus " + k}
			for v := 0; v < nv/2+1; v++ {
				t, d := relayoutRaw(r, corpus[k])
				c.Variants = append(c.Variants, []byte(t))
				c.Labels = append(c.Labels, d)
			}
			cases = append(cases, c)
		}
		rep.Extra["corpus_programs"] = len(cnames)
		rep.Rule = "the book programs of /repo/test (copied to corpus/book) under line-level re-layouts, and seeded programs (labels, EQUs, data with strings containing ; # , and quotes, GLOBAL lists of 1-4 and EXTERN lists of 2-5 names, both modes) rendered canonically and in token-preserving re-layouts: ';' and '#' comments (text with quotes, commas, brackets, Japanese) after any statement or on their own lines, blank lines, indentation of any statement including labels, tabs/spaces, 0-2 blanks around commas, operators, parentheses and inside brackets, trailing whitespace, LF/CRLF/CR, final newline present/absent, layout-only lines after the last statement, files ending in every kind of statement; " +
			"only gaps where NASK lexically allows whitespace are varied; a part of the programs also goes through the real command (cmd/gosk) in layouts that only its file reading could treat differently: physical lines of 65535, 65536 and 70000 bytes (comment, trailing blanks, gap after the mnemonic), 9000 extra lines with LF and CRLF ends, 10^5 blank lines, no final newline; the command must leave the bytes and exit status of the canonical layout; string twins: programs whose [FILE] name (flat and WCOFF, where it reaches the .file record) and DB strings contain ';', '#' or ',' against the same program with the letter q in their place - both must assemble and the outputs may differ only by those characters; oracle: every re-layout assembles to the bytes of the canonical layout; distinct = (mode, origin, size bucket) cells; each case carries several layouts"
		// the same property through the real command: layouts that only the file-reading side could treat differently
		ncli := 0
		for i, k := range cnames {
			if strings.Contains(k, "day01") || strings.Contains(k, "day02") {
				continue
			}
			if env.Tier == "quick" && i%3 != int(env.Seed%3) {
				continue
			}
			cl := cliLayouts(asciiOnly(corpus[k]), "book")
			ncli += len(cl)
			cases = append(cases, cl...)
		}
		for i := 0; i < 3; i++ {
			p, _ := genLabelled(r, Pick(r, []int{16, 32}), Pick(r, []int64{-1, 0x7c00}), genOpts{Equs: true, Jumps: true})
			cl := cliLayouts(asciiOnly(p.Source()), "generated")
			ncli += len(cl)
			cases = append(cases, cl...)
		}
		rep.Extra["layouts_through_the_command"] = ncli
		outs := RunCases(env, cases)
		nl := 0
		for _, c := range cases {
			if vc, ok := c.(*VariantCase); ok {
				nl += len(vc.Variants)
			}
		}
		rep.Extra["layouts_compared"] = nl
		for i := 0; i < len(cases) && len(rep.Samples) < 3; i += len(cases)/3 + 1 {
			vc, ok := cases[i].(*VariantCase)
			if !ok {
				continue
			}
			rep.AddSample(map[string]any{"canonical": clipStr(string(vc.Base), 600), "relayout": clipStr(string(vc.Variants[0]), 900), "what": vc.Labels[0], "verdict": outs[i].Status.String()})
		}
		rep.Add(cases, outs)
	}}
}
