package main

import (
	"fmt"
	"os"
	"sort"
	"strconv"
	"time"
)

// A property check generates its cases from env.Seed / env.Tier, runs them and
// feeds the report.
type propCheck struct {
	needCLI bool
	run     func(env *Env, rep *Report)
}

var props = map[string]propCheck{}

type DecQ struct {
	Bytes []byte
	Mode  int
}

func usage() {
	fmt.Fprintln(os.Stderr, "usage: vcheck <property-id> quick|thorough | vcheck replay <file> | vcheck list")
	os.Exit(2)
}

func main() {
	if len(os.Args) < 2 {
		usage()
	}
	seed := int64(0)
	if s := os.Getenv("VERIF_SEED"); s != "" {
		if v, err := strconv.ParseInt(s, 10, 64); err == nil {
			seed = v
		}
	}
	switch os.Args[1] {
	case "list":
		ids := []string{}
		for k := range props {
			ids = append(ids, k)
		}
		sort.Strings(ids)
		for _, k := range ids {
			fmt.Println(k)
		}
		return
	case "pool":
		devPool()
		return
	case "asm":
		devAsm()
		return
	case "replay":
		if len(os.Args) < 3 {
			usage()
		}
		env, err := NewEnv("quick", seed, true)
		if err != nil {
			fmt.Println("INCONCLUSIVE reason=" + err.Error())
			if env != nil {
				env.Close()
			}
			os.Exit(2)
		}
		fs, err := LoadFindings(findingsPath(env.Verif))
		if err != nil {
			fmt.Println(err)
			env.Close()
			os.Exit(2)
		}
		code := Replay(env, fs, os.Args[2])
		env.Close()
		os.Exit(code)
	}
	id := os.Args[1]
	tier := "quick"
	if len(os.Args) > 2 {
		tier = os.Args[2]
	}
	if t := os.Getenv("VERIF_TIER"); t != "" && len(os.Args) <= 2 {
		tier = t
	}
	if tier != "quick" && tier != "thorough" {
		usage()
	}
	pc, ok := props[id]
	if !ok {
		fmt.Fprintln(os.Stderr, "unknown property", id)
		os.Exit(2)
	}
	env, err := NewEnv(tier, seed, pc.needCLI)
	if err != nil {
		fmt.Printf("INCONCLUSIVE property=%s reason=%s\n", id, err.Error())
		if env != nil {
			env.Close()
		}
		os.Exit(2)
	}
	fs, err := LoadFindings(findingsPath(env.Verif))
	if err != nil {
		fmt.Println(err)
		env.Close()
		os.Exit(2)
	}
	if os.Getenv("VERIF_NOFINDINGS") != "" {
		// development aid (never part of a registered command): judge as if nothing were listed, to audit what each pattern absorbs
		fs = &Findings{}
	}
	rep := NewReport(id, env, fs)
	// whole-run wall-clock watchdog: firing is INCONCLUSIVE, never a verdict
	limit := 20 * time.Minute
	if tier == "thorough" {
		limit = 3 * time.Hour
	}
	go func() {
		time.Sleep(limit)
		fmt.Printf("INCONCLUSIVE property=%s reason=whole-run watchdog (%s) fired\n", id, limit)
		env.Close()
		os.Exit(2)
	}()
	pc.run(env, rep)
	code := rep.Finish()
	env.Close()
	os.Exit(code)
}
