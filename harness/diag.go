package main

import (
	"regexp"
	"strings"
)

// Diagnostics classifier (DESIGN §3.5).  Deliberately generous to gosk: the
// more lines count as diagnostics, the fewer "silently accepted" verdicts.

type LogLine struct {
	Level string // trace debug info warn error alert (colog's header), "" unknown
	Msg   string
}

var logRe = regexp.MustCompile(`^\[\s*(\w+)\s*\]\s+(?:\S+\.go:\d+:\s+)?(.*)$`)

func parseLog(l string) LogLine {
	m := logRe.FindStringSubmatch(l)
	if m == nil {
		return LogLine{Msg: l}
	}
	return LogLine{Level: strings.ToLower(m[1]), Msg: m[2]}
}

var diagWords = []string{"error", "fail", "invalid", "unsupported", "unresolved", "undefined", "unknown", "not found", "cannot", "can't",
	"requires", "out of range", "illegal", "missing", "見つかりません", "失敗", "エラー", "warn", "not implemented", "expects", "should not", "must be"}

func isDiagLine(l string) bool {
	ll := parseLog(l)
	switch ll.Level {
	case "warn", "warning", "error", "alert", "fatal":
		return true
	}
	if strings.HasPrefix(ll.Msg, "[pass1] Case ") || strings.HasPrefix(ll.Msg, "[pass1] Processing ") {
		return false // progress lines of the branch handler; they quote label names and say "requires Pass 2 resolution"
	}
	low := strings.ToLower(ll.Msg)
	for _, w := range diagWords {
		if strings.Contains(low, w) {
			return true
		}
	}
	return false
}

func isErrorLevel(l string) bool {
	ll := parseLog(l)
	return ll.Level == "error" || ll.Level == "alert" || ll.Level == "fatal"
}

// benign lines: those the bare prologue of either mode produces.
func (e *Env) InitBaseline() {
	if e.benign != nil {
		return
	}
	e.benign = map[string]bool{}
	rs := e.Pool.RunAll([]Req{{Src: []byte("NOP\n")}, {Src: []byte("[BITS 32]\nNOP\n")}, {Src: []byte("[BITS 16]\nNOP\n")}})
	for _, r := range rs {
		for _, l := range r.Log {
			e.benign[parseLog(l).Msg] = true
		}
	}
}

// Diags returns the diagnostic lines of a result that the bare prologue does
// not also produce, plus GOSK : messages.
func (e *Env) Diags(r *Res) []string {
	var out []string
	for _, l := range r.Log {
		if e.benign[parseLog(l).Msg] {
			continue
		}
		if isDiagLine(l) {
			out = append(out, l)
		}
	}
	if strings.Contains(r.Stdout, "GOSK :") {
		out = append(out, "stdout: "+strings.TrimSpace(r.Stdout))
	}
	return out
}

// ErrorDiags: only error-level lines (what C07's premise talks about) plus
// GOSK : messages.
func (e *Env) ErrorDiags(r *Res) []string {
	var out []string
	for _, l := range r.Log {
		if isErrorLevel(l) && !e.benign[parseLog(l).Msg] {
			out = append(out, l)
		}
	}
	if strings.Contains(r.Stdout, "GOSK :") {
		out = append(out, "stdout: "+strings.TrimSpace(r.Stdout))
	}
	return out
}

// RejectDiags: lines that mean gosk refused (part of) the program -- error
// level, or an info-level line that reports an error in words.  Plain
// truncation warnings ("Value 300 out of range for DB, truncating") are not
// refusals.
func (e *Env) RejectDiags(r *Res) []string {
	var out []string
	for _, l := range r.Log {
		ll := parseLog(l)
		if e.benign[ll.Msg] {
			continue
		}
		low := strings.ToLower(ll.Msg)
		if strings.HasPrefix(low, "warning:") || strings.HasPrefix(low, "warn:") || ll.Level == "warn" || ll.Level == "warning" {
			if !strings.Contains(low, "fail") && !strings.Contains(low, "not found") {
				continue
			}
			if strings.Contains(low, "declared but not found in symbol table") {
				continue // an undefined GLOBAL is legal: it becomes an undefined external symbol
			}
		}
		if isDiagLine(l) {
			out = append(out, l)
		}
	}
	if strings.Contains(r.Stdout, "GOSK :") {
		out = append(out, "stdout: "+strings.TrimSpace(r.Stdout))
	}
	return out
}

// accepted: the program went through without refusal; otherwise a note why not.
func (e *Env) accepted(r *Res) (bool, string) {
	switch {
	case r.ParseErr != "":
		return false, "parse error: " + oneLine(r.ParseErr, 80)
	case r.Crashed():
		return false, "crash (C13's business)"
	case r.Died:
		return false, "diagnosed exit"
	}
	if d := e.RejectDiags(r); len(d) > 0 {
		return false, "diagnostic: " + oneLine(parseLog(d[0]).Msg, 100)
	}
	return true, ""
}
