package main

import (
	"regexp"
	"strings"
)

// Diagnostics classifier (DESIGN §3.5).  Deliberately generous to gosk: the
// more lines count as diagnostics, the fewer "silently accepted" verdicts.

type LogLine struct {
	Level string // trace debug info warn error alert (colog's header), "" unknown
	Msg   string
}

var logRe = regexp.MustCompile(`^\[\s*(\w+)\s*\]\s+(?:\S+\.go:\d+:\s+)?(.*)$`)

func parseLog(l string) LogLine {
	m := logRe.FindStringSubmatch(l)
	if m == nil {
		return LogLine{Msg: l}
	}
	return LogLine{Level: strings.ToLower(m[1]), Msg: m[2]}
}

var diagWords = []string{"error", "fail", "invalid", "unsupported", "unresolved", "undefined", "unknown", "not found", "cannot", "can't",
	"requires", "out of range", "illegal", "missing", "見つかりません", "失敗", "エラー", "warn", "not implemented", "expects", "should not", "must be"}

func isDiagLine(l string) bool {
	ll := parseLog(l)
	switch ll.Level {
	case "warn", "warning", "error", "alert", "fatal":
		return true
	}
	low := strings.ToLower(ll.Msg)
	for _, w := range diagWords {
		if strings.Contains(low, w) {
			return true
		}
	}
	return false
}

func isErrorLevel(l string) bool {
	ll := parseLog(l)
	return ll.Level == "error" || ll.Level == "alert" || ll.Level == "fatal"
}

// benign lines: those the bare prologue of either mode produces.
func (e *Env) InitBaseline() {
	if e.benign != nil {
		return
	}
	e.benign = map[string]bool{}
	rs := e.Pool.RunAll([]Req{{Src: []byte("NOP\n")}, {Src: []byte("[BITS 32]\nNOP\n")}, {Src: []byte("[BITS 16]\nNOP\n")}})
	for _, r := range rs {
		for _, l := range r.Log {
			e.benign[parseLog(l).Msg] = true
		}
	}
}

// Diags returns the diagnostic lines of a result that the bare prologue does
// not also produce, plus GOSK : messages.
func (e *Env) Diags(r *Res) []string {
	var out []string
	for _, l := range r.Log {
		if e.benign[parseLog(l).Msg] {
			continue
		}
		if isDiagLine(l) {
			out = append(out, l)
		}
	}
	if strings.Contains(r.Stdout, "GOSK :") {
		out = append(out, "stdout: "+strings.TrimSpace(r.Stdout))
	}
	return out
}

// ErrorDiags: only error-level lines (what C07's premise talks about) plus
// GOSK : messages.
func (e *Env) ErrorDiags(r *Res) []string {
	var out []string
	for _, l := range r.Log {
		if isErrorLevel(l) && !e.benign[parseLog(l).Msg] {
			out = append(out, l)
		}
	}
	if strings.Contains(r.Stdout, "GOSK :") {
		out = append(out, "stdout: "+strings.TrimSpace(r.Stdout))
	}
	return out
}
