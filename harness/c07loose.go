package main

import (
	"fmt"
	"strings"
)

// looseOperands: for an accepted statement outside the instance model, every
// operand written in the source must be found in what the bytes decode to, and
// every register or memory operand of the decoded instruction must have been
// written.  The frame puts the statement at offset 3 with no ORG (deflabel = 3,
// DEFEQU = 7).  Returns "" when the decoded instruction represents the statement.
func looseOperands(c *SilentCase, in Inst) string {
	if c.Shape == "-" || c.Shape == "" {
		for _, o := range in.Ops {
			if o.Kind == KImm || o.Kind == KRel || o.Kind == KFar {
				return fmt.Sprintf("the statement has no operand, the emitted instruction has %s", o)
			}
		}
		return ""
	}
	kinds := strings.Split(c.Shape, ",")
	used := make([]bool, len(in.Ops))
	signExt := map[string]bool{"PUSH": true, "IMUL": true}
	for _, n := range aluNames {
		signExt[n] = true
	}
	findReg := func(class string, reg int) bool {
		for i, o := range in.Ops {
			if o.Kind == KReg && o.Class == class && o.Reg == reg {
				used[i] = true
				// the same register may stand twice (IMUL r,imm = IMUL r,r,imm; ADD AX,AX)
				for j, p := range in.Ops {
					if p.Kind == KReg && p.Class == class && p.Reg == reg {
						used[j] = true
					}
				}
				return true
			}
		}
		return false
	}
	findImm := func(v int64) bool {
		for i, o := range in.Ops {
			switch o.Kind {
			case KImm:
				w := o.ImmW
				if signExt[in.Op] && in.OpSize > w {
					w = in.OpSize
				}
				if w == 0 {
					w = 8
				}
				if uint64(o.Imm)&widthMask(w) == uint64(v)&widthMask(w) {
					used[i] = true
					return true
				}
			case KRel:
				w := in.OpSize
				if w == 0 {
					w = c.Mode
				}
				if uint64(int64(3+in.Len)+o.Imm)&widthMask(w) == uint64(v)&widthMask(w) {
					used[i] = true
					return true
				}
			}
		}
		return false
	}
	findMem := func(asize int, reg int, disp int64, size int) bool {
		for i, o := range in.Ops {
			if o.Kind != KMem || o.ASize != asize || o.Disp != disp {
				continue
			}
			var want [8]int
			want[reg] = 1
			if o.Coef != want {
				continue
			}
			if size != 0 && o.Size != 0 && o.Size != size {
				continue
			}
			used[i] = true
			return true
		}
		return false
	}
	for k, kind := range kinds {
		ok := true
		switch kind {
		case "r8":
			ok = findReg(R8, 1)
		case "r16":
			ok = findReg(R16, 2)
		case "r32":
			ok = findReg(R32, 3)
		case "acc8":
			ok = findReg(R8, 0)
		case "acc16":
			ok = findReg(R16, 0)
		case "acc32":
			ok = findReg(R32, 0)
		case "sreg":
			ok = findReg(SREG, 0)
		case "creg":
			ok = findReg(CREG, 0)
		case "imm-small":
			ok = findImm(5)
		case "imm-mid":
			ok = findImm(0x3f8)
		case "imm-large":
			ok = findImm(0x12345)
		case "equ":
			ok = findImm(7)
		case "label":
			ok = findImm(3)
		case "mem":
			ok = findMem(16, 3, 0, 0)
		case "mem-e":
			ok = findMem(32, 6, 0, 0)
		case "mem8":
			ok = findMem(16, 6, 4, 8)
		case "mem32":
			ok = findMem(32, 3, 8, 32)
		case "far":
			ok = false
			for i, o := range in.Ops {
				if o.Kind == KFar && o.Sel == 8 && o.Off == 0x10 {
					used[i], ok = true, true
				}
			}
		default:
			continue // kinds judged elsewhere (undefined names, strings)
		}
		if !ok {
			return fmt.Sprintf("operand %d (%s) of the statement is not an operand of the emitted instruction", k+1, kind)
		}
	}
	for i, o := range in.Ops {
		if used[i] {
			continue
		}
		switch o.Kind {
		case KReg, KMem, KFar:
			return fmt.Sprintf("the emitted instruction has the operand %s, which the statement does not name", o)
		}
	}
	return ""
}
