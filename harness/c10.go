package main

import (
	"bytes"
	"crypto/sha256"
	"encoding/hex"
	"fmt"
	"sort"
	"strings"
)

// C10: output is deterministic and independent of history.

type poolProg struct {
	Src   []byte `json:"src"`
	Kind  string `json:"kind"`
	Ref   []byte `json:"ref"`   // output of a fresh CLI process
	RefOK bool   `json:"refok"` // the fresh process exited 0 and wrote the file
}

type histStep struct {
	Prog  int  `json:"p"`
	Reuse bool `json:"reuse,omitempty"` // re-execute the tree parsed at the previous use of this program
}

// HistoryCase: a sequence of assemble calls in one worker process.
type HistoryCase struct {
	Pool  []poolProg `json:"pool"`
	Steps []histStep `json:"steps"`
	Cell_ string     `json:"cell"`
}

func (c *HistoryCase) Kind() string     { return "history" }
func (c *HistoryCase) Sequential() bool { return true }
func (c *HistoryCase) Reqs() []Req {
	var rq []Req
	kept := map[int]bool{}
	for i, st := range c.Steps {
		key := fmt.Sprintf("t%d", st.Prog)
		out := fmt.Sprintf("o%d.bin", i%7)
		if st.Reuse && kept[st.Prog] {
			rq = append(rq, Req{Reuse: key, Out: out, Prefill: bytes.Repeat([]byte{0xee}, 3000+i%500)})
		} else {
			rq = append(rq, Req{Src: c.Pool[st.Prog].Src, Keep: key, Out: out})
			kept[st.Prog] = true
		}
	}
	return rq
}

func (c *HistoryCase) Judge(rs []Res, env *Env) Outcome {
	o := Outcome{Cell: c.Cell_}
	judged := 0
	for i, st := range c.Steps {
		r := rs[i]
		pp := c.Pool[st.Prog]
		if r.Died {
			o.Status, o.Note = Inconclusive, fmt.Sprintf("worker process ended at step %d (program kind %s)", i, pp.Kind)
			return o
		}
		if !pp.RefOK {
			continue // the fresh process did not produce an output: nothing to compare with
		}
		if r.ParseErr != "" || r.Panic != "" {
			o.Status = Violated
			o.Viols = []Violation{{Sig: "C10|history|outcome-differs|" + pp.Kind, Detail: fmt.Sprintf("step %d: a fresh process assembles program %d (%s) but in this history the call ended with parse error %q / panic %q; history so far: %v", i, st.Prog, pp.Kind, oneLine(r.ParseErr, 100), oneLine(r.Panic, 100), c.Steps[:i+1])}}
			return o
		}
		judged++
		if !bytes.Equal(r.Out, pp.Ref) {
			d := firstDiff(r.Out, pp.Ref)
			how := "parsed again"
			if st.Reuse {
				how = "re-executing the already parsed tree"
			}
			o.Status = Violated
			o.Viols = []Violation{{Sig: fmt.Sprintf("C10|history|output-differs|%s|reuse=%v", pp.Kind, st.Reuse),
				Detail: fmt.Sprintf("step %d of the history (%s): program %d (%s) gives %d bytes, a fresh process gives %d bytes; first difference at offset %d (history %s.. vs fresh %s..); the %d calls before it assembled programs %v; source of the program:\n%s",
					i, how, st.Prog, pp.Kind, len(r.Out), len(pp.Ref), d, hex.EncodeToString(clip(r.Out[minInt(maxInt(d-2, 0), len(r.Out)):], 16)), hex.EncodeToString(clip(pp.Ref[minInt(maxInt(d-2, 0), len(pp.Ref)):], 16)), i, stepProgs(c.Steps[:i]), clipStr(string(pp.Src), 1200))}}
			return o
		}
	}
	if judged == 0 {
		o.Status, o.Note = Inconclusive, "no step could be compared"
		return o
	}
	o.Status = Held
	return o
}

func stepProgs(st []histStep) []int {
	var o []int
	for _, s := range st {
		o = append(o, s.Prog)
	}
	if len(o) > 40 {
		o = o[len(o)-40:]
	}
	return o
}

func init() { registerKind("history", func() Case { return &HistoryCase{} }) }

// siblingGroups: tiny programs that differ in ONE encoding-relevant coordinate (immediate class, direct versus
// indirect address, mode) while sharing mnemonic and register: a process-wide cache keyed too coarsely replays
// the encoding of whichever sibling came first
func siblingGroups(r *Rand) [][]string {
	var groups [][]string
	imms := []string{"1", "100", "-100", "-256", "0x1234", "-129", "127", "128", "0xffff", "-32768", "255"}
	for g := 0; g < 4; g++ {
		mn := Pick(r, poolALU)
		mode := Pick(r, []int{16, 32})
		reg := Pick(r, []string{"CX", "DX", "BX", "SI", "DL", "BH"})
		if mode == 32 {
			reg = Pick(r, []string{"ECX", "EBX", "ESI", "CX", "DL"})
		}
		pre := ""
		if mode == 32 {
			pre = "[BITS 32]\n"
		}
		var grp []string
		for _, v := range imms {
			if (reg == "DL" || reg == "BH") && (v == "0x1234" || v == "-256" || v == "0xffff" || v == "-32768" || v == "-129") {
				continue
			}
			grp = append(grp, fmt.Sprintf("%s\t%s %s,%s\n\tNOP\n", pre, mn, reg, v))
		}
		groups = append(groups, grp)
	}
	for _, mode := range []int{16, 32} {
		pre := ""
		acc, base := "AX", "BX"
		if mode == 32 {
			pre, acc, base = "[BITS 32]\n", "EAX", "EBX"
		}
		var grp []string
		for _, st := range []string{"MOV " + acc + ",[" + base + "]", "MOV " + acc + ",[0x1234]", "MOV [" + base + "]," + acc, "MOV [0x1234]," + acc, "MOV AL,[" + base + "]", "MOV AL,[0x0ff0]",
			"MOV CL,[0x0ff0]", "MOV CL,[" + base + "+4]", "ADD " + acc + ",[0x1234]", "ADD " + acc + ",[" + base + "+0x1234]", "MOV [0x0ff2],DX", "MOV [" + base + "+2],DX"} {
			grp = append(grp, pre+"\t"+st+"\nl:\n\tJMP l\n")
		}
		groups = append(groups, grp)
	}
	// the same mnemonic with operands of every CLASS (segment register, general register, small and large immediate, memory): a
	// lookup that rearranges or trims the shared form list of a mnemonic while serving one class changes what a later program of
	// another class gets; the tail makes a wrong SIZE visible as well
	for _, mode := range []int{16, 32} {
		pre := ""
		if mode == 32 {
			pre = "[BITS 32]\n"
		}
		for _, g := range [][]string{
			{"PUSH ES", "PUSH DS", "PUSH CS", "PUSH SS", "PUSH 1", "PUSH 0x7f", "PUSH AX", "PUSH BX", "PUSH WORD [BX]", "PUSH ECX", "PUSH -1"},
			{"POP ES", "POP DS", "POP AX", "POP CX", "POP WORD [BX]", "POP ESI"},
			{"MOV DS,AX", "MOV ES,BX", "MOV AX,ES", "MOV BX,DS", "MOV [BX],ES", "MOV CX,DX", "MOV CX,5", "MOV CX,[BX]", "MOV ECX,EDX", "MOV CL,5"},
			{"ADD AX,ES", "ADD AX,BX", "ADD AX,5", "ADD AX,0x1234", "ADD BX,5", "ADD BX,[SI]", "ADD [SI],BX", "ADD BL,5", "ADD EBX,5"},
			{"CMP AX,ES", "CMP AX,1", "CMP BX,1", "CMP BX,0x1234", "CMP BYTE [BX],1", "CMP BL,CL", "CMP ECX,-1"},
			{"OUT DX,AL", "OUT 0x21,AL", "OUT DX,AX", "IN AL,DX", "IN AL,0x60", "IN AX,DX", "INT 0x10", "INT 3"},
		} {
			var grp []string
			for _, st := range g {
				grp = append(grp, pre+"\t"+st+"\n\tMOV BX,l\nl:\n\tJMP l\n\tDW l\n")
			}
			groups = append(groups, grp)
		}
	}
	return groups
}

func buildC10Pool(env *Env, r *Rand, n int) ([]poolProg, [][]int) {
	reserved := reservedPrefixes(env.Repo)
	var pool []poolProg
	// The fresh-process references come from the CLI, which decodes its input file as Shift_JIS before parsing,
	// while the worker hands the bytes to the parser as they are: only for pure ASCII text do both see the same
	// program, so the pool is kept ASCII (non-ASCII sources through the CLI are C19's subject).
	add := func(kind, src string) {
		pool = append(pool, poolProg{Src: []byte(asciiOnly(src)), Kind: kind})
	}
	var sib [][]int
	for gi, grp := range siblingGroups(r) {
		var idx []int
		for _, src := range grp {
			idx = append(idx, len(pool))
			add(fmt.Sprintf("sibling-group%d", gi), src)
		}
		sib = append(sib, idx)
	}
	corpus := loadCorpus(env)
	var cn []string
	for k := range corpus {
		cn = append(cn, k)
	}
	sort.Strings(cn)
	for _, k := range cn {
		if strings.Contains(k, "day01") || strings.Contains(k, "day02") {
			continue // 1.4 MB floppy images: too large for thousands of repetitions
		}
		add("book-"+strings.TrimSuffix(k, ".nas"), corpus[k])
	}
	// label names that contain one another, used in every position including inside brackets (where gosk resolves
	// them wrongly but must do so the same way every time): anything that iterates over the symbol table shows here
	for v := 0; v < 6; v++ {
		var b bytes.Buffer
		names := [][]string{{"tbl", "tbl2", "tbl2x"}, {"msg", "msg_end", "msg_e"}, {"L1", "L10", "L100"}, {"a", "aa", "aaa"}, {"x_", "x__", "x"}, {"n", "n1", "n12"}}[v]
		if v%2 == 1 {
			b.WriteString("[BITS 32]\n")
		}
		fmt.Fprintf(&b, "%s:\n%s:\n\tDB 1,2,3,4\n%s:\n\tDB \"hi\",0\n", names[0], names[1], names[2])
		for k := 0; k < 8; k++ {
			nm := names[r.Intn(3)]
			switch r.Intn(6) {
			case 0:
				fmt.Fprintf(&b, "\tMOV AL,[%s]\n", nm)
			case 1:
				fmt.Fprintf(&b, "\tMOV [%s],BX\n", nm)
			case 2:
				fmt.Fprintf(&b, "\tCMP BYTE [%s],0\n", nm)
			case 3:
				fmt.Fprintf(&b, "\tMOV SI,%s\n", nm)
			case 4:
				fmt.Fprintf(&b, "\tDW %s,%s\n", nm, names[r.Intn(3)])
			default:
				fmt.Fprintf(&b, "\tJMP %s\n", nm)
			}
		}
		add("nested-label-names", b.String())
	}
	// every refused program that shares identifiers with the valid ones is in the pool at every seed (the seeded picks further
	// down add more copies): what a failed assembly remembers about a NAME must not depend on the luck of the draw
	for _, s := range []string{"K0\tEQU\tK1*2\nK1\tEQU\t[K0*2]\n\tMOV AX,K1\n", "K2\tEQU\tK3+1\nK3\tEQU\t8:K2\n\tJMP K3\n", "K0\tEQU\tK0+1\n\tDD K0\n", "K1\tEQU\tnolabel\n\tMOV AX,K1\n\tDB 5\n",
		"L0:\n\tJMP L1\n\tDW L9\n", "K0\tEQU\t5\nK0\tEQU\t[K0]\n\tMOV AX,K0\n", "sym0:\n\tDW sym1\n\tMOV AX,[sym0\n", "K3\tEQU\tK4\nK4\tEQU\tK3\n\tDD K3\n", "K1\tEQU\tK2*2\nK2\tEQU\t[K1*2]\n\tMOV AX,K2\n", "K4\tEQU\tK0\nK0\tEQU\tK4+1\n\tDW K4\n"} {
		add("refused", s)
	}
	n += len(pool)
	for i := 0; len(pool) < n; i++ {
		switch i % 8 {
		case 0, 1:
			p, _ := genLabelled(r, 16, Pick(r, []int64{-1, 0x7c00, 0xc200}), genOpts{Equs: true, Jumps: true})
			add("flat16", p.Source())
		case 2, 3:
			p, _ := genLabelled(r, 32, Pick(r, []int64{-1, 0x280000}), genOpts{Equs: true, Jumps: true})
			add("flat32", p.Source())
		case 4:
			add("coff", genCoffCase(r, "C09", reserved, false).source(true))
		case 5:
			// many symbols
			p := Prog{}
			for k := 0; k < 70; k++ {
				p.Stmts = append(p.Stmts, PStmt{K: "label", Label: fmt.Sprintf("sym%d", k)}, poolStmtSized(r, 16))
				if k%3 == 0 {
					p.Stmts = append(p.Stmts, PStmt{K: "data", W: 2, Items: []DItem{{Kind: "label", Label: fmt.Sprintf("sym%d", r.Intn(k+1)), Text: fmt.Sprintf("sym%d", r.Intn(k+1))}}})
				}
			}
			add("many-symbols", p.Source())
		case 6:
			// same instruction texts in the other mode / with memory operands (state keyed without the mode would show)
			var b bytes.Buffer
			mode := Pick(r, []int{16, 32})
			if mode == 32 {
				b.WriteString("[BITS 32]\n")
			}
			b.WriteString("\tMOV CL,[0x0ff0]\n\tMOV [0x0ff2],DX\n\tADD BX,[0x0ff4]\n\tMOV AX,[BX]\nafter:\n\tJMP after\n\tMOV EAX,after\n")
			for k := 0; k < 6; k++ {
				s := poolStmtSized(r, mode)
				b.WriteString(s.Line() + "\n")
			}
			b.WriteString("fin:\n\tMOV EBX,fin\n")
			add(fmt.Sprintf("shared-text%d", mode), b.String())
		default:
			// programs gosk refuses or complains about (they must not poison later calls)
			add("refused", Pick(r, []string{"\tMOV AX,\n", "\tFOO BAR\n", "\tADC AX,BX\n\tDB 1\n", "\tMOV AX,[nolabel]\n\tDB 2\n", "\tJMP\n", "\tDW \"str\"\n\tDB 3\n", "\tLGDT [nowhere]\n\tDB 4\n",
				// refused programs that use the very identifiers the valid programs of the pool use (K0.., L0.., sym0..): what a failure leaves behind about a NAME shows in them
				"K0\tEQU\tK1*2\nK1\tEQU\t[K0*2]\n\tMOV AX,K1\n", "K2\tEQU\tK3+1\nK3\tEQU\t8:K2\n\tJMP K3\n", "K0\tEQU\tK0+1\n\tDD K0\n", "K1\tEQU\tnolabel\n\tMOV AX,K1\n\tDB 5\n",
				"L0:\n\tJMP L1\n\tDW L9\n", "K0\tEQU\t5\nK0\tEQU\t[K0]\n\tMOV AX,K0\n", "sym0:\n\tDW sym1\n\tMOV AX,[sym0\n", "K3\tEQU\tK4\nK4\tEQU\tK3\n\tDD K3\n"}))
		}
	}
	return pool, sib
}

func init() {
	props["C10"] = propCheck{needCLI: true, run: func(env *Env, rep *Report) {
		env.InitBaseline()
		r := NewRand(env.Seed, "C10")
		npool, nhist, steps := 230, 27, 200
		if env.Tier == "thorough" {
			npool, nhist, steps = 420, 72, 5000
		}
		pool, sib := buildC10Pool(env, r, npool)
		// references: every program in a fresh process, twice, with different environment, cwd, output name and junk in the destination
		var jobs []CLIJob
		for i := range pool {
			jobs = append(jobs, CLIJob{Src: pool[i].Src, Env: []string{"TZ=UTC", "LANG=C"}})
			jobs = append(jobs, CLIJob{Src: pool[i].Src, SrcName: "other name.nas", OutName: "o2.img", Prefill: bytes.Repeat([]byte("JUNK"), 5000), Env: []string{"TZ=Asia/Tokyo", "LANG=ja_JP.UTF-8", "LC_ALL=C.UTF-8"}})
		}
		runs := env.RunCLI(jobs)
		var cases []Case
		var outs []Outcome
		nref := 0
		for i := range pool {
			a, b := runs[2*i], runs[2*i+1]
			pool[i].RefOK = a.Exit == 0 && a.Signal == "" && a.OutExist
			pool[i].Ref = a.Out
			if pool[i].RefOK {
				nref++
			}
			fc := &FreshCase{Src: pool[i].Src, Kind_: pool[i].Kind}
			o := Outcome{Cell: "fresh " + pool[i].Kind, Status: Held}
			bothFail := a.Exit != 0 && b.Exit != 0
			if a.Exit != b.Exit || (!bothFail && (a.OutExist != b.OutExist || !bytes.Equal(a.Out, b.Out))) {
				o.Status = Violated
				o.Viols = []Violation{{Sig: "C10|fresh-process|" + pool[i].Kind, Detail: fmt.Sprintf("two fresh processes (different cwd, TZ, LANG, output name, pre-filled destination) disagree: exit %d/%d, %d/%d bytes, first difference at %d; source:\n%s", a.Exit, b.Exit, len(a.Out), len(b.Out), firstDiff(a.Out, b.Out), clipStr(string(pool[i].Src), 1000))}}
			} else if !pool[i].RefOK {
				o.Status, o.Note = Rejected, "refused by the CLI"
			}
			cases = append(cases, fc)
			outs = append(outs, o)
		}
		rep.Add(cases, outs)
		// histories
		var hc []Case
		for h := 0; h < nhist; h++ {
			c := &HistoryCase{Pool: pool}
			// each history concentrates on a few programs so that repetitions and re-executions are frequent
			focus := Sample(r, seqInts(len(pool)), 6+h%20)
			if h%3 == 0 && len(sib) > 0 {
				// a history that stays inside one sibling group: every order of its members occurs
				focus = sib[(h/3)%len(sib)]
			}
			var last = map[int]bool{}
			for s := 0; s < steps; s++ {
				p := Pick(r, focus)
				if r.Chance(1, 5) {
					p = r.Intn(len(pool))
				}
				st := histStep{Prog: p}
				if last[p] && r.Chance(1, 3) {
					st.Reuse = true
				}
				last[p] = true
				c.Steps = append(c.Steps, st)
			}
			c.Cell_ = fmt.Sprintf("history focus=%d", len(focus))
			hc = append(hc, c)
		}
		houts := RunCases(env, hc)
		ncalls := 0
		states := map[string]bool{}
		for _, c := range hc {
			h := c.(*HistoryCase)
			ncalls += len(h.Steps)
			for i := 1; i < len(h.Steps); i++ {
				states[fmt.Sprintf("%d>%d:%v", h.Steps[i-1].Prog, h.Steps[i].Prog, h.Steps[i].Reuse)] = true
			}
		}
		rep.Extra["pool_programs"] = len(pool)
		rep.Extra["pool_programs_with_reference_output"] = nref
		rep.Extra["history_calls_compared"] = ncalls
		rep.Extra["distinct_predecessor_successor_pairs"] = len(states)
		hsum := sha256.Sum256(pool[0].Src)
		rep.AddSample(map[string]any{"first_pool_program_sha256": hex.EncodeToString(hsum[:8]), "first_history_prefix": hc[0].(*HistoryCase).Steps[:12], "pool_kinds": poolKinds(pool)})
		rep.AddSample(map[string]any{"program": clipStr(string(pool[1].Src), 600)})
		rep.Rule = "a seeded pool of programs (flat 16/32-bit with labels and EQUs, WCOFF with GLOBALs, 70-symbol programs, identical statement texts under both modes, refused programs); references: each program assembled by the REAL CLI in a fresh process twice with different cwd, TZ, LANG, output name and a junk-filled destination (must agree); " +
			"histories: per worker process a seeded sequence of assemble calls over the pool with repetition, interleaving formats and modes, failing and succeeding programs, and re-execution of an already parsed tree into a junk-filled destination; every call's output must equal the fresh-process reference; distinct = program kinds and history shapes; evidence also counts distinct (predecessor, successor) pairs observed"
		rep.Add(hc, houts)
	}}
}

func poolKinds(pool []poolProg) map[string]int {
	m := map[string]int{}
	for _, p := range pool {
		m[p.Kind]++
	}
	return m
}

func seqInts(n int) []int {
	o := make([]int, n)
	for i := range o {
		o[i] = i
	}
	return o
}

// FreshCase is only a carrier for the replay file of a fresh-process disagreement.
type FreshCase struct {
	Src   []byte `json:"src"`
	Kind_ string `json:"kind"`
}

func (c *FreshCase) Kind() string { return "fresh" }
func (c *FreshCase) Reqs() []Req  { return []Req{{Src: c.Src}, {Src: c.Src}} }
func (c *FreshCase) Judge(rs []Res, env *Env) Outcome {
	o := Outcome{Cell: "fresh " + c.Kind_, Status: Held}
	if !bytes.Equal(rs[0].Out, rs[1].Out) {
		o.Status = Violated
		o.Viols = []Violation{{Sig: "C10|fresh-process|" + c.Kind_, Detail: "two assemblies of the same source differ"}}
	}
	return o
}

func init() { registerKind("fresh", func() Case { return &FreshCase{} }) }

// asciiOnly replaces every byte above 0x7f by 'x'.
func asciiOnly(src string) string {
	b := []byte(src)
	for i := range b {
		if b[i] >= 0x80 {
			b[i] = 'x'
		}
	}
	return string(b)
}
