package main

import (
	"encoding/hex"
	"fmt"
	"sort"
	"strings"
)

// InstCase: one instruction statement under [BITS mode], judged against the
// reference decoder.  Serves C01 (whole instruction), C02 (memory operand
// only) and C18 (length versus the shortest encoding).
type InstCase struct {
	Prop string `json:"prop"`
	X    XInst  `json:"x"`
}

func (c *InstCase) Kind() string { return "inst" }
func (c *InstCase) Reqs() []Req  { return []Req{{Src: []byte(c.X.Source())}} }

func sigOf(prop, cell, kind string) string { return prop + "|" + cell + "|" + kind }

func (c *InstCase) Judge(rs []Res, env *Env) Outcome {
	r := rs[0]
	x := &c.X
	o := Outcome{Cell: x.Cell}
	switch {
	case r.ParseErr != "":
		o.Status, o.Note = Rejected, "parse error"
		return o
	case r.Crashed():
		o.Status, o.Note = Rejected, "crash (C13's business)"
		return o
	case r.Died:
		o.Status, o.Note = Rejected, "diagnosed exit"
		return o
	}
	if d := env.Diags(&r); len(d) > 0 {
		o.Status, o.Note = Rejected, "diagnostic: "+parseLog(d[0]).Msg
		return o
	}
	out := r.Out
	hx := hex.EncodeToString(out)
	fail := func(kind, detail string) Outcome {
		o.Status = Violated
		o.Viols = []Violation{{Sig: sigOf(c.Prop, x.Cell, kind), Detail: fmt.Sprintf("[BITS %d] %s -> %s: %s", x.Mode, x.Stmt(), hx, detail)}}
		return o
	}
	if len(out) == 0 {
		if c.Prop != "C01" {
			o.Status, o.Note = Inconclusive, "no bytes emitted (C01/C07 report this)"
			return o
		}
		return fail("dropped", "accepted without a diagnostic but no bytes were emitted")
	}
	in := Decode(out, x.Mode)
	o.Decodes = []DecQ{{Bytes: out, Mode: x.Mode}}
	total := len(out)
	if spec, ok := noopTable[x.Mn]; ok && len(x.Ops) == 0 && spec.Pfx == "WAIT" && in.Bad == "" && in.Op == "WAIT" && len(out) > 1 {
		// WAIT + FN...: judge the second instruction
		in2 := Decode(out[1:], x.Mode)
		o.Decodes = append(o.Decodes, DecQ{Bytes: out[1:], Mode: x.Mode})
		if in2.Bad != "" || in2.Op != spec.Op {
			return fail("wrong-instruction", fmt.Sprintf("expected WAIT + %s, decoded WAIT + %s", spec.Op, in2))
		}
		if 1+in2.Len != total {
			return fail("extra-bytes", fmt.Sprintf("WAIT + %s is %d bytes, %d emitted", spec.Op, 1+in2.Len, total))
		}
		o.Status = Held
		return o
	}
	m := x.Match(in, total)
	switch c.Prop {
	case "C02":
		// only the memory operand is judged here
		immBytes := func(i Inst) int {
			n := 0
			for _, op := range i.Ops {
				if op.Kind == KImm {
					n += op.ImmW / 8
				}
			}
			return n
		}
		if m != nil && len(m.Kind) >= 3 && m.Kind[:3] == "ea-" {
			return fail(m.Kind, m.Detail)
		}
		if in.Bad == "truncated" || (m == nil && in.Len > total) {
			// the bytes stop short: decode them again, zero-padded, to see which field is cut
			pad := append(append([]byte{}, out...), make([]byte, 16)...)
			in2 := Decode(pad, x.Mode)
			if m2 := x.Match(in2, in2.Len); m2 == nil && total < in2.Len-immBytes(in2) {
				return fail("ea-bytes", fmt.Sprintf("the encoding of the memory operand is cut short: %d bytes emitted, %s needs %d before its immediate", total, in2, in2.Len-immBytes(in2)))
			}
			o.Status, o.Note = Inconclusive, "carrier instruction cut short outside the memory operand: C01 reports it"
			return o
		}
		if m != nil {
			o.Status, o.Note = Inconclusive, "carrier instruction mis-encoded ("+m.Kind+"): C01 reports it"
			return o
		}
		if in.Len < total {
			if immBytes(in) == 0 {
				return fail("ea-bytes", fmt.Sprintf("%d bytes emitted but %s ends after %d: stray bytes follow the memory operand", total, in, in.Len))
			}
			o.Status, o.Note = Inconclusive, "extra bytes after an immediate: C01 reports it"
			return o
		}
		o.Status = Held
		return o
	case "C18":
		if m != nil || in.Len != total {
			o.Status, o.Note = Inconclusive, "not a correct encoding: C01 reports it"
			return o
		}
		want, strict := minLens(x)
		if want <= 0 {
			o.Status, o.Note = Inconclusive, "no minimal-length model for this form"
			return o
		}
		if total > want {
			return fail("longer-than-shortest", fmt.Sprintf("%d bytes emitted (%s), the shortest valid encoding has %d", total, in, want))
		}
		if total < strict {
			o.Status, o.Note = Inconclusive, fmt.Sprintf("length model error: emitted %d bytes < modelled minimum %d for %s", total, strict, x.Stmt())
			return o
		}
		o.Status = Held
		return o
	}
	if m != nil {
		if in.Bad == "truncated" {
			return fail("missing-bytes", "the emitted bytes end in the middle of an instruction: "+m.Detail)
		}
		return fail(m.Kind, m.Detail)
	}
	if in.Len < total {
		return fail("extra-bytes", fmt.Sprintf("decodes to the intended %s (%d bytes) but %d bytes were emitted", in, in.Len, total))
	}
	if in.Len > total {
		return fail("missing-bytes", fmt.Sprintf("instruction needs %d bytes, %d emitted", in.Len, total))
	}
	o.Status = Held
	return o
}

func init() { registerKind("inst", func() Case { return &InstCase{} }) }

// ---- the C01 case space -------------------------------------------------------------

var boundaryImms = []int64{0, 1, 0x7f, 0x80, 0xff, 0x100, 0x7fff, 0x8000, 0xffff, 0x10000, 0x7fffffff, 0x80000000, 0xffffffff,
	-1, -0x7f, -0x80, -0xff, -0x100, -0x7fff, -0x8000, -0xffff, -0x10000, -0x7fffffff, -0x80000000, -0xffffffff}

// a representative set of memory shapes (the complete address space is C02's)
func sampleShapes() []MemShape {
	var s []MemShape
	add16 := func(b, i int, d int64, has bool) {
		s = append(s, MemShape{ASize: 16, Base: b, Index: i, Scale: 1, Disp: d, HasDisp: has})
	}
	for _, b := range []int{3, 5, 6, 7} {
		add16(b, -1, 0, false)
	}
	add16(3, 6, 0, false)
	add16(3, 7, 0, false)
	add16(5, 6, 0, false)
	add16(5, 7, 0, false)
	add16(3, -1, 4, true)
	add16(5, -1, 4, true)
	add16(6, -1, -2, true)
	add16(3, 6, 0x10, true)
	add16(5, 7, -128, true)
	add16(3, -1, 0x1234, true)
	add16(7, -1, -129, true)
	add16(5, -1, 0, true)
	s = append(s, MemShape{ASize: 0, Base: -1, Index: -1, Disp: 0x1234, HasDisp: true})
	s = append(s, MemShape{ASize: 0, Base: -1, Index: -1, Disp: 0x0ff0, HasDisp: true})
	add32 := func(b, i, sc int, d int64, has bool) {
		s = append(s, MemShape{ASize: 32, Base: b, Index: i, Scale: sc, Disp: d, HasDisp: has})
	}
	add32(0, -1, 1, 0, false)
	add32(3, -1, 1, 0, false)
	add32(4, -1, 1, 0, false)
	add32(5, -1, 1, 0, false)
	add32(6, -1, 1, 8, true)
	add32(5, -1, 1, -4, true)
	add32(4, -1, 1, 4, true)
	add32(0, 3, 1, 0, false)
	add32(3, 6, 4, 0, false)
	add32(0, 1, 8, 0x100, true)
	add32(3, -1, 1, -129, true)
	add32(3, -1, 1, 128, true)
	add32(1, -1, 1, 0x12345678, true)
	add32(2, 7, 2, 16, true)
	add32(-1, 3, 4, 8, true)
	add32(-1, 2, 2, 0, false)
	add32(0, 0, 1, 0, false)
	return s
}

type instGen struct {
	cases []*InstCase
	prop  string
	n     int
}

func (g *instGen) add(mn string, mode int, form string, extra string, ops ...XOp) {
	x := XInst{Mn: mn, Mode: mode, Ops: ops, Form: form}
	x.Cell = strings.TrimSpace(fmt.Sprintf("%s %s m%d %s", mn, form, mode, extra))
	g.cases = append(g.cases, &InstCase{Prop: g.prop, X: x})
	g.n++
}

var widths = []int{8, 16, 32}

func kwOf(w int) string { return map[int]string{8: "BYTE", 16: "WORD", 32: "DWORD"}[w] }

// genC01 enumerates the whole case space of C01.
func genC01() []*InstCase {
	g := &instGen{prop: "C01"}
	shapes := sampleShapes()
	style := 0
	nextStyle := func() int { style++; return style % 3 }
	for _, mode := range []int{16, 32} {
		// --- two-operand ALU group and MOV
		for _, mn := range []string{"ADD", "SUB", "CMP", "AND", "OR", "XOR", "MOV", "ADC", "SBB", "TEST", "XCHG"} {
			for _, w := range widths {
				for a := 0; a < 8; a++ {
					for b := 0; b < 8; b++ {
						ra, rb := xgpr(w, a), xgpr(w, b)
						g.add(mn, mode, fmt.Sprintf("r%d,r%d", w, w), "d="+regClassOf(ra)+" s="+regClassOf(rb), ra, rb)
					}
					if mn == "XCHG" {
						continue
					}
					for _, v := range boundaryImms {
						ra := xgpr(w, a)
						g.add(mn, mode, fmt.Sprintf("r%d,imm", w), "d="+regClassOf(ra)+" imm="+immClass(v), ra, ximm(v, nextStyle()))
					}
				}
				for si, sh := range shapes {
					for a := 0; a < 8; a++ {
						if a > 1 && si%4 != a%4 { // all registers on a quarter of the shapes, AL/CL.. everywhere
							continue
						}
						ra := xgpr(w, a)
						mo := xmem(sh, w, false, 0, 1)
						g.add(mn, mode, fmt.Sprintf("r%d,m", w), "d="+regClassOf(ra)+" "+memClass(sh), ra, mo)
						g.add(mn, mode, fmt.Sprintf("m,r%d", w), "s="+regClassOf(ra)+" "+memClass(sh), mo, ra)
					}
					if mn == "XCHG" {
						continue
					}
					for vi, v := range boundaryImms {
						if (vi+si)%3 != 0 {
							continue
						}
						mo := xmem(sh, w, true, 0, 1)
						g.add(mn, mode, fmt.Sprintf("m%d,imm", w), memClass(sh)+" imm="+immClass(v), mo, ximm(v, nextStyle()))
					}
				}
			}
		}
		// --- shifts and rotates
		for _, mn := range []string{"SHL", "SHR", "SAR", "SAL", "ROL", "ROR", "RCL", "RCR"} {
			for _, w := range widths {
				for a := 0; a < 8; a++ {
					ra := xgpr(w, a)
					for _, v := range []int64{1, 2, 7, 8, 15, 31} {
						cls := "n"
						if v == 1 {
							cls = "one"
						}
						g.add(mn, mode, fmt.Sprintf("r%d,imm8", w), "d="+regClassOf(ra)+" cnt="+cls, ra, ximm(v, 0))
					}
					g.add(mn, mode, fmt.Sprintf("r%d,CL", w), "d="+regClassOf(ra), ra, xgpr(8, 1))
				}
				for _, sh := range shapes {
					mo := xmem(sh, w, true, 0, 1)
					g.add(mn, mode, fmt.Sprintf("m%d,imm8", w), memClass(sh)+" cnt=n", mo, ximm(3, 0))
					g.add(mn, mode, fmt.Sprintf("m%d,imm8", w), memClass(sh)+" cnt=one", mo, ximm(1, 0))
				}
			}
		}
		// --- one-operand group
		for _, mn := range []string{"NOT", "NEG", "INC", "DEC", "MUL", "IMUL", "DIV", "IDIV"} {
			for _, w := range widths {
				for a := 0; a < 8; a++ {
					ra := xgpr(w, a)
					g.add(mn, mode, fmt.Sprintf("r%d", w), "d="+regClassOf(ra), ra)
				}
				for _, sh := range shapes {
					g.add(mn, mode, fmt.Sprintf("m%d", w), memClass(sh), xmem(sh, w, true, 0, 1))
				}
			}
		}
		// --- IMUL two/three operand
		for _, w := range []int{16, 32} {
			for a := 0; a < 8; a++ {
				ra := xgpr(w, a)
				for _, v := range boundaryImms {
					g.add("IMUL", mode, fmt.Sprintf("r%d,imm", w), "d="+regClassOf(ra)+" imm="+immClass(v), ra, ximm(v, nextStyle()))
				}
				for b := 0; b < 8; b++ {
					rb := xgpr(w, b)
					g.add("IMUL", mode, fmt.Sprintf("r%d,r%d", w, w), "d="+regClassOf(ra)+" s="+regClassOf(rb), ra, rb)
					if b%3 == a%3 {
						g.add("IMUL", mode, fmt.Sprintf("r%d,r%d,imm", w, w), "d="+regClassOf(ra)+" imm=s8", ra, rb, ximm(5, 0))
						g.add("IMUL", mode, fmt.Sprintf("r%d,r%d,imm", w, w), "d="+regClassOf(ra)+" imm=p16", ra, rb, ximm(0x1200, 1))
					}
				}
				for si, sh := range shapes {
					if si%8 == a {
						g.add("IMUL", mode, fmt.Sprintf("r%d,m", w), "d="+regClassOf(ra)+" "+memClass(sh), ra, xmem(sh, w, false, 0, 1))
					}
				}
			}
		}
		// --- PUSH / POP
		for _, mn := range []string{"PUSH", "POP"} {
			for _, w := range []int{16, 32} {
				for a := 0; a < 8; a++ {
					ra := xgpr(w, a)
					g.add(mn, mode, fmt.Sprintf("r%d", w), "d="+regClassOf(ra), ra)
				}
				for _, sh := range shapes {
					g.add(mn, mode, fmt.Sprintf("m%d", w), memClass(sh), xmem(sh, w, true, 0, 1))
				}
			}
			for s := 0; s < 6; s++ {
				if mn == "POP" && s == 1 {
					continue // POP CS does not exist
				}
				g.add(mn, mode, "sreg", "s="+regNames[SREG][s], xreg(SREG, s))
			}
		}
		for _, v := range boundaryImms {
			g.add("PUSH", mode, "imm", "imm="+immClass(v), ximm(v, nextStyle()))
		}
		// --- IN / OUT
		for _, w := range widths {
			acc := xgpr(w, 0)
			g.add("IN", mode, fmt.Sprintf("acc%d,DX", w), "", acc, xgpr(16, 2))
			g.add("OUT", mode, fmt.Sprintf("DX,acc%d", w), "", xgpr(16, 2), acc)
			for _, p := range []int64{0, 1, 0x21, 0x60, 0x7f, 0x80, 0xa1, 0xff} {
				g.add("IN", mode, fmt.Sprintf("acc%d,imm8", w), "port="+immClass(p), acc, ximm(p, 1))
				g.add("OUT", mode, fmt.Sprintf("imm8,acc%d", w), "port="+immClass(p), ximm(p, 1), acc)
			}
		}
		// --- INT
		for _, v := range []int64{0, 1, 3, 0x10, 0x13, 0x15, 0x21, 0x7f, 0x80, 0xfe, 0xff} {
			cls := immClass(v)
			if v == 3 {
				cls = "three"
			}
			g.add("INT", mode, "imm8", "n="+cls, ximm(v, 1))
		}
		// --- RET forms
		for _, mn := range []string{"RET", "RETN", "RETF"} {
			for _, v := range []int64{0, 2, 4, 8, 0x100, 0x7fff, 0xffff} {
				g.add(mn, mode, "imm16", "n="+immClass(v), ximm(v, 0))
			}
		}
		// --- segment register moves
		for s := 0; s < 6; s++ {
			for a := 0; a < 8; a++ {
				ra := xgpr(16, a)
				g.add("MOV", mode, "r16,sreg", "d="+regClassOf(ra)+" s="+regNames[SREG][s], ra, xreg(SREG, s))
				if s != 1 {
					g.add("MOV", mode, "sreg,r16", "d="+regNames[SREG][s]+" s="+regClassOf(ra), xreg(SREG, s), ra)
				}
			}
			for si, sh := range shapes {
				if si%3 == 0 {
					g.add("MOV", mode, "m16,sreg", memClass(sh)+" s="+regNames[SREG][s], xmem(sh, 16, false, 0, 1), xreg(SREG, s))
					if s != 1 {
						g.add("MOV", mode, "sreg,m16", "d="+regNames[SREG][s]+" "+memClass(sh), xreg(SREG, s), xmem(sh, 16, false, 0, 1))
					}
				}
			}
		}
		// --- control registers
		for _, cr := range []int{0, 2, 3, 4} {
			for a := 0; a < 8; a++ {
				ra := xgpr(32, a)
				g.add("MOV", mode, "creg,r32", fmt.Sprintf("d=CR%d s=%s", cr, regClassOf(ra)), xreg(CREG, cr), ra)
				g.add("MOV", mode, "r32,creg", fmt.Sprintf("d=%s s=CR%d", regClassOf(ra), cr), ra, xreg(CREG, cr))
			}
		}
		// --- accumulator <-> absolute address
		for _, w := range widths {
			acc := xgpr(w, 0)
			for _, addr := range []int64{0, 0x7f, 0x80, 0x0ff0, 0x1234, 0x7fff, 0x8000, 0xffff, 0x10000, 0x12345678} {
				sh := MemShape{ASize: 0, Base: -1, Index: -1, Disp: addr, HasDisp: true}
				g.add("MOV", mode, fmt.Sprintf("acc%d,moffs", w), "addr="+immClass(addr), acc, xmem(sh, w, false, 0, 1))
				g.add("MOV", mode, fmt.Sprintf("moffs,acc%d", w), "addr="+immClass(addr), xmem(sh, w, false, 0, 1), acc)
			}
		}
		// --- LGDT / LIDT / LEA / MOVZX / MOVSX
		for _, sh := range shapes {
			g.add("LGDT", mode, "m", memClass(sh), xmem(sh, 0, false, 0, 1))
			g.add("LIDT", mode, "m", memClass(sh), xmem(sh, 0, false, 0, 1))
			for _, w := range []int{16, 32} {
				g.add("LEA", mode, fmt.Sprintf("r%d,m", w), memClass(sh), xgpr(w, 1), xmem(sh, 0, false, 0, 1))
			}
		}
		for _, mn := range []string{"MOVZX", "MOVSX"} {
			for a := 0; a < 8; a++ {
				g.add(mn, mode, "r16,r8", "", xgpr(16, a), xgpr(8, (a+3)%8))
				g.add(mn, mode, "r32,r8", "", xgpr(32, a), xgpr(8, (a+3)%8))
				g.add(mn, mode, "r32,r16", "", xgpr(32, a), xgpr(16, (a+5)%8))
			}
		}
		// --- no-operand mnemonics
		var names []string
		for mn := range noopTable {
			names = append(names, mn)
		}
		sort.Strings(names)
		for _, mn := range names {
			g.add(mn, mode, "noop", "")
		}
	}
	return g.cases
}

// stratified sample: every cell represented by up to k cases.
func sampleByCell(r *Rand, cases []*InstCase, k int) []*InstCase {
	by := map[string][]*InstCase{}
	var order []string
	for _, c := range cases {
		if _, ok := by[c.X.Cell]; !ok {
			order = append(order, c.X.Cell)
		}
		by[c.X.Cell] = append(by[c.X.Cell], c)
	}
	var out []*InstCase
	for _, cell := range order {
		out = append(out, Sample(r, by[cell], k)...)
	}
	return out
}
