package main

import (
	"crypto/sha256"
	"encoding/hex"
	"encoding/json"
	"fmt"
	"os"
	"path/filepath"
	"sort"
	"strings"
	"time"
)

type Status int

const (
	Held Status = iota
	Violated
	Inconclusive // the oracle could not be evaluated
	Rejected     // gosk refused the input with a diagnostic: outside the (conditional) property
)

func (s Status) String() string {
	return [...]string{"held", "violated", "inconclusive", "rejected"}[s]
}

type Violation struct {
	Sig    string `json:"sig"`    // property|check|cell|failure-kind[|detail]
	Detail string `json:"detail"` // human-readable: expected vs observed
}

// Outcome is the three-valued (plus "rejected") verdict for one case.
type Outcome struct {
	Status  Status
	Viols   []Violation
	Cell    string // quantifier cell the case belongs to
	Note    string
	Decodes []DecQ // (bytes, mode) pairs the reference decoder was consulted on
}

// Case is one unit of workload + oracle.  Concrete types are plain structs
// that marshal to JSON, so a violating case can be written to a replay file and
// re-judged later against whatever tree is then in /repo.
type Case interface {
	Kind() string
	Reqs() []Req
	Judge(rs []Res, env *Env) Outcome
}

// SpreadCase: the requests of the case are to run in DIFFERENT worker processes (each with its own history),
// so that state surviving inside one process cannot make both sides of a relation wrong in the same way.
type SpreadCase interface{ Spread() bool }

// SeqCase: the requests form a history that must run in order on one fresh
// worker process.
type SeqCase interface{ Sequential() bool }

var kinds = map[string]func() Case{}

func registerKind(k string, f func() Case) { kinds[k] = f }

type replayFile struct {
	Property string          `json:"property"`
	Kind     string          `json:"kind"`
	Seed     int64           `json:"seed"`
	Tier     string          `json:"tier"`
	Sig      string          `json:"signature"`
	Detail   string          `json:"detail"`
	Case     json.RawMessage `json:"case"`
}

// RunCases executes and judges all cases.
func RunCases(env *Env, cases []Case) []Outcome {
	outs := make([]Outcome, len(cases))
	var groups [][]Req
	groupOf := make([]int, len(cases))
	spreadOf := map[int]int{}
	var seqIdx []int
	var seqs [][]Req
	for i, c := range cases {
		rq := c.Reqs()
		if sc, ok := c.(SeqCase); ok && sc.Sequential() {
			seqIdx = append(seqIdx, i)
			seqs = append(seqs, rq)
			groupOf[i] = -1
			continue
		}
		if sp, ok := c.(SpreadCase); ok && sp.Spread() {
			// one group per request: the requests of the case land in different worker processes
			spreadOf[i] = len(groups)
			for _, q := range rq {
				groups = append(groups, []Req{q})
			}
			groupOf[i] = -2
			continue
		}
		groupOf[i] = len(groups)
		groups = append(groups, rq)
	}
	res := env.Pool.RunGrouped(groups)
	seqRes := env.Pool.RunSeqs(seqs)
	isSeq := map[int]int{}
	for k, i := range seqIdx {
		isSeq[i] = k
	}
	for i, c := range cases {
		var rs []Res
		if k, ok := isSeq[i]; ok {
			rs = seqRes[k]
		} else {
			if groupOf[i] == -2 {
				for k := 0; k < len(c.Reqs()); k++ {
					rs = append(rs, res[spreadOf[i]+k]...)
				}
			} else {
				rs = res[groupOf[i]]
			}
		}
		infra := ""
		for _, r := range rs {
			if r.Infra != "" {
				infra = r.Infra
			}
		}
		if infra != "" {
			outs[i] = Outcome{Status: Inconclusive, Note: "harness: " + infra}
			continue
		}
		outs[i] = c.Judge(rs, env)
	}
	return outs
}

// Report accumulates what a run observed and produces the evidence file, the
// KNOWN-FINDING / VIOLATION lines and the exit status.
type Report struct {
	Prop      string
	Env       *Env
	Findings  *Findings
	Start     time.Time
	Rule      string
	Level     string
	Exhaust   bool
	Evals     int
	Counts    map[string]int // by status
	Cells     map[string]int // cell -> accepted+judged cases
	CellViol  map[string]int
	Samples   []any
	Extra     map[string]any
	unknown   map[string]*unk // by signature
	unkOrder  []string
	knownHits map[string]int
	inconcl   map[string]int
	planned   int
	MinConcl  float64 // floor: fraction of planned cases that must be conclusive
	sampleCap int
	rejects   map[string]int
	auditSigs map[string]bool
}

type unk struct {
	v     Violation
	c     Case
	count int
}

func NewReport(prop string, env *Env, fs *Findings) *Report {
	return &Report{Prop: prop, Env: env, Findings: fs, Start: time.Now(), Level: "exploration",
		Counts: map[string]int{}, Cells: map[string]int{}, CellViol: map[string]int{}, Extra: map[string]any{},
		unknown: map[string]*unk{}, knownHits: map[string]int{}, inconcl: map[string]int{}, MinConcl: 0.5, sampleCap: 12}
}

func (r *Report) AddSample(s any) {
	if len(r.Samples) < r.sampleCap {
		r.Samples = append(r.Samples, s)
	}
}

// Add records the outcomes of a batch of cases.
func (r *Report) Add(cases []Case, outs []Outcome) {
	for i, o := range outs {
		r.Evals++
		r.planned++
		r.Counts[o.Status.String()]++
		switch o.Status {
		case Held:
			if o.Cell != "" {
				r.Cells[o.Cell]++
			}
		case Violated:
			if o.Cell != "" {
				r.Cells[o.Cell]++
				r.CellViol[o.Cell]++
			}
			for _, v := range o.Viols {
				if r.auditSigs == nil {
					r.auditSigs = map[string]bool{}
				}
				r.auditSigs[v.Sig] = true
				if f := r.Findings.MatchKnown(r.Prop, v.Sig); f != nil {
					f.Hits++
					if f.Sample == "" {
						f.Sample = v.Detail
					}
					r.knownHits[f.ID]++
					continue
				}
				u := r.unknown[v.Sig]
				if u == nil {
					u = &unk{v: v, c: cases[i]}
					r.unknown[v.Sig] = u
					r.unkOrder = append(r.unkOrder, v.Sig)
				}
				u.count++
			}
		case Rejected:
			key := o.Note
			if len(key) > 90 {
				key = key[:90]
			}
			if r.rejects == nil {
				r.rejects = map[string]int{}
			}
			r.rejects[key]++
		case Inconclusive:
			key := o.Note
			if len(key) > 80 {
				key = key[:80]
			}
			r.inconcl[key]++
		}
	}
}

func (r *Report) Unknown() int { return len(r.unknown) }

func writeReplay(env *Env, prop string, v Violation, c Case) string {
	dir := filepath.Join(env.Verif, "replays", prop)
	os.MkdirAll(dir, 0o755)
	cb, _ := json.Marshal(c)
	rf := replayFile{Property: prop, Kind: c.Kind(), Seed: env.Seed, Tier: env.Tier, Sig: v.Sig, Detail: v.Detail, Case: cb}
	b, _ := json.MarshalIndent(rf, "", " ")
	h := sha256.Sum256(append([]byte(v.Sig), cb...))
	p := filepath.Join(dir, hex.EncodeToString(h[:8])+".json")
	os.WriteFile(p, b, 0o644)
	return p
}

// Finish writes evidence, prints the verdict lines and returns the exit code:
// 0 held on everything explored, 1 violation, 2 inconclusive.
// auditOverbroad (development aid, VERIF_AUDIT=1): a listed pattern should
// absorb only signatures of cells that fail on the unchanged tree.  For every
// cell in which every case HELD, build the signatures a failure of that cell
// would have (with each kind seen in this run) and report the patterns that
// would swallow them: a regression in such a cell would go unnoticed.
func (r *Report) auditOverbroad() {
	build := func(cell, kind string) string { return r.Prop + "|" + cell + "|" + kind }
	kindOf := func(sig string) string { f := strings.Split(sig, "|"); return f[len(f)-1] }
	if r.Prop == "C07" {
		// cell "MN shape m16" <-> signature C07|kind|m16|MN shape
		build = func(cell, kind string) string {
			i := strings.LastIndex(cell, " m")
			if i < 0 {
				return ""
			}
			return "C07|" + kind + "|" + cell[i+1:] + "|" + cell[:i]
		}
		kindOf = func(sig string) string {
			f := strings.Split(sig, "|")
			if len(f) > 1 {
				return f[1]
			}
			return ""
		}
	}
	kinds := map[string]bool{}
	for sig := range r.auditSigs {
		kinds[kindOf(sig)] = true
	}
	n := map[string]int{}
	for cell, tot := range r.Cells {
		if r.CellViol[cell] > 0 || tot == 0 {
			continue
		}
		for k := range kinds {
			sig := build(cell, k)
			if sig == "" {
				continue
			}
			if f := r.Findings.MatchKnown(r.Prop, sig); f != nil {
				n[f.ID]++
				if n[f.ID] <= 6 {
					fmt.Printf("OVERBROAD %s would absorb %s (every case of that cell holds)\n", f.ID, sig)
				}
			}
		}
	}
	for id, c := range n {
		fmt.Printf("OVERBROAD-TOTAL %s %d\n", id, c)
	}
}

func (r *Report) Finish() int {
	env := r.Env
	if os.Getenv("VERIF_AUDIT") != "" {
		r.auditOverbroad()
	}
	// known findings of this property: one line each, when observed in this run
	var stale []string
	for _, f := range r.Findings.ForProp(r.Prop) {
		if f.Hits > 0 {
			fmt.Printf("KNOWN-FINDING: property=%s %s %s (observed %d times in this run; e.g. %s)\n", r.Prop, f.ID, f.Text, f.Hits, oneLine(f.Sample, 160))
		} else {
			stale = append(stale, f.ID)
		}
	}
	nUnknown := 0
	var vlist []map[string]any
	for _, sig := range r.unkOrder {
		u := r.unknown[sig]
		nUnknown += u.count
		p := writeReplay(env, r.Prop, u.v, u.c)
		if len(vlist) < 40 {
			fmt.Printf("VIOLATION property=%s replay=%s\n", r.Prop, p)
			fmt.Printf("  signature: %s (%d cases)\n  %s\n", sig, u.count, oneLine(u.v.Detail, 400))
		}
		vlist = append(vlist, map[string]any{"signature": sig, "cases": u.count, "detail": u.v.Detail, "replay": p})
	}
	if os.Getenv("VERIF_DUMP") != "" {
		sigs := append([]string(nil), r.unkOrder...)
		sort.Strings(sigs)
		for _, sig := range sigs {
			u := r.unknown[sig]
			fmt.Printf("DUMP %6d %s :: %s\n", u.count, sig, oneLine(u.v.Detail, 300))
		}
	}
	if len(r.unkOrder) > 40 {
		fmt.Printf("  ... and %d more distinct violation signatures (all in the evidence file)\n", len(r.unkOrder)-40)
	}
	distinct := len(r.Cells)
	// rejected cases are conclusive too: the oracle established that the (conditional) property's premise is false
	conclusive := r.Counts["held"] + r.Counts["violated"] + r.Counts["rejected"]
	cov := map[string]any{
		"evaluations":         r.Evals,
		"distinct_nontrivial": distinct,
		"rule":                r.Rule,
		"samples":             r.Samples,
		"exhaustive":          r.Exhaust,
		"outcomes":            r.Counts,
		"known_finding_hits":  r.knownHits,
		"stale_known_entries": stale,
		"worker_requests":     env.Pool.Requests,
		"worker_restarts":     env.Pool.Restarts,
	}
	if len(r.inconcl) > 0 {
		cov["inconclusive_reasons"] = topN(r.inconcl, 25)
	}
	if len(r.rejects) > 0 {
		cov["rejected_reasons"] = topN(r.rejects, 25)
	}
	if len(vlist) > 0 {
		cov["violations_unlisted"] = vlist
	}
	for k, v := range r.Extra {
		cov[k] = v
	}
	if cov["samples"] == nil {
		cov["samples"] = []any{}
	}
	ev := map[string]any{
		"property_id": r.Prop,
		"tier":        env.Tier,
		"seed":        env.Seed,
		"level":       r.Level,
		"coverage":    cov,
		"assumptions": append([]string{}, env.Assumes...),
		"wall_s":      float64(int(time.Since(r.Start).Seconds()*100)) / 100,
		"violations":  nUnknown,
	}
	if ev["assumptions"] == nil {
		ev["assumptions"] = []string{}
	}
	b, _ := json.MarshalIndent(ev, "", " ")
	os.MkdirAll(filepath.Join(env.Verif, "evidence"), 0o755)
	os.WriteFile(filepath.Join(env.Verif, "evidence", r.Prop+".json"), append(b, '\n'), 0o644)

	code := 0
	switch {
	case nUnknown > 0:
		code = 1
	case distinct < 2 || float64(conclusive) < r.MinConcl*float64(r.planned):
		fmt.Printf("INCONCLUSIVE property=%s reason=only %d of %d planned cases were conclusive, %d distinct non-trivial cells\n", r.Prop, conclusive, r.planned, distinct)
		for k, n := range r.inconcl {
			fmt.Printf("  inconclusive x%d: %s\n", n, k)
		}
		code = 2
	}
	keys := make([]string, 0, len(r.Counts))
	for k := range r.Counts {
		keys = append(keys, k)
	}
	sort.Strings(keys)
	var parts []string
	for _, k := range keys {
		parts = append(parts, fmt.Sprintf("%s=%d", k, r.Counts[k]))
	}
	fmt.Printf("%s %s seed=%d: %d cases (%s), %d distinct non-trivial cells, %d known-finding hits, %d unlisted violations, %.1fs\n",
		r.Prop, env.Tier, env.Seed, r.Evals, strings.Join(parts, " "), distinct, sumMap(r.knownHits), nUnknown, time.Since(r.Start).Seconds())
	return code
}

func sumMap(m map[string]int) int {
	n := 0
	for _, v := range m {
		n += v
	}
	return n
}

func oneLine(s string, max int) string {
	s = strings.ReplaceAll(s, "\n", "\\n")
	if len(s) > max {
		s = s[:max] + "..."
	}
	return s
}

// Replay re-judges the case stored in a replay file against the current tree.
func Replay(env *Env, fs *Findings, path string) int {
	b, err := os.ReadFile(path)
	if err != nil {
		fmt.Println("replay:", err)
		return 2
	}
	var rf replayFile
	if err := json.Unmarshal(b, &rf); err != nil {
		fmt.Println("replay:", err)
		return 2
	}
	mk, ok := kinds[rf.Kind]
	if !ok {
		fmt.Println("replay: unknown case kind", rf.Kind)
		return 2
	}
	c := mk()
	if err := json.Unmarshal(rf.Case, c); err != nil {
		fmt.Println("replay:", err)
		return 2
	}
	outs := RunCases(env, []Case{c})
	o := outs[0]
	fmt.Printf("replay %s: kind=%s status=%s %s\n", path, rf.Kind, o.Status, o.Note)
	code := 0
	for _, v := range o.Viols {
		if f := fs.MatchKnown(rf.Property, v.Sig); f != nil {
			fmt.Printf("KNOWN-FINDING: property=%s %s %s\n", rf.Property, f.ID, f.Text)
			continue
		}
		fmt.Printf("VIOLATION property=%s replay=%s\n  signature: %s\n  %s\n", rf.Property, path, v.Sig, v.Detail)
		code = 1
	}
	if o.Status == Inconclusive {
		return 2
	}
	return code
}

func topN(m map[string]int, n int) map[string]int {
	type kv struct {
		k string
		v int
	}
	var xs []kv
	for k, v := range m {
		xs = append(xs, kv{k, v})
	}
	sort.Slice(xs, func(i, j int) bool {
		if xs[i].v != xs[j].v {
			return xs[i].v > xs[j].v
		}
		return xs[i].k < xs[j].k
	})
	out := map[string]int{}
	rest := 0
	for i, x := range xs {
		if i < n {
			out[x.k] = x.v
		} else {
			rest += x.v
		}
	}
	if rest > 0 {
		out["(other)"] = rest
	}
	return out
}
