package main

import "fmt"

func isALUImmGroup(mn string) bool {
	switch mn {
	case "ADD", "OR", "ADC", "SBB", "AND", "SUB", "XOR", "CMP":
		return true
	}
	return false
}

func fitsS8(v int64) bool { return v >= -128 && v <= 127 }

// signExtEquivalent: the value, reduced modulo 2^w, equals a sign-extended byte
func signExtEquivalent(v int64, w int) bool {
	m := uint64(v) & widthMask(w)
	var s int64
	if w == 16 {
		s = int64(int16(m))
	} else {
		s = int64(int32(m))
	}
	return fitsS8(s)
}

// minLens returns (demanded, strict): `strict` is the length of the shortest
// valid encoding of the instance in its mode; `demanded` is what C18 requires
// gosk not to exceed -- the same, except that an immediate qualifies for the
// sign-extended imm8 form only when its WRITTEN value is in -128..127 (this is
// what NASK does; demanding more would be stricter than the property).
// 0,0 = no model for this form.
func minLens(x *XInst) (int, int) {
	mode := x.Mode
	p66 := func(w int) int {
		if w != 8 && w != mode {
			return 1
		}
		return 0
	}
	ops := x.Ops
	switch {
	case isALUImmGroup(x.Mn) && len(ops) == 2 && ops[1].Kind == XImm:
		v := ops[1].Val
		var w int
		var body int // opcode + modrm (+sib+disp), without immediate
		acc := false
		p67 := 0
		switch ops[0].Kind {
		case XReg:
			w = regWidth(ops[0].Class)
			acc = ops[0].Reg == 0
			body = 2
		case XMem:
			w = ops[0].Size
			n, ap := memEncLen(ops[0], mode)
			body = 1 + n
			if ap {
				p67 = 1
			}
		default:
			return 0, 0
		}
		if w == 8 {
			n := body + 1
			if acc {
				n = 2
			}
			return n + p67, n + p67
		}
		full := body + w/8
		if acc {
			full = 1 + w/8
		}
		short := body + 1
		dem, str := full, full
		if fitsS8(v) && short < dem {
			dem = short
		}
		if (fitsS8(v) || signExtEquivalent(v, w)) && short < str {
			str = short
		}
		return dem + p66(w) + p67, str + p66(w) + p67
	case x.Mn == "MOV" && len(ops) == 2 && ops[0].Kind == XReg && ops[1].Kind == XImm && (ops[0].Class == R8 || ops[0].Class == R16 || ops[0].Class == R32):
		w := regWidth(ops[0].Class)
		n := 1 + w/8 + p66(w)
		return n, n
	case (x.Mn == "PUSH" || x.Mn == "POP") && len(ops) == 1 && ops[0].Kind == XReg && (ops[0].Class == R16 || ops[0].Class == R32):
		n := 1 + p66(regWidth(ops[0].Class))
		return n, n
	case x.Mn == "MOV" && len(ops) == 2 && ((ops[0].Kind == XReg && ops[0].Reg == 0 && ops[1].Kind == XMem && ops[1].ASize == 0) ||
		(ops[1].Kind == XReg && ops[1].Reg == 0 && ops[0].Kind == XMem && ops[0].ASize == 0)):
		r, m := ops[0], ops[1]
		if r.Kind != XReg {
			r, m = m, r
		}
		if r.Class != R8 && r.Class != R16 && r.Class != R32 {
			return 0, 0
		}
		w := regWidth(r.Class)
		if mode == 16 && (m.Disp > 0xffff || m.Disp < -0x8000) {
			return 0, 0 // the address does not fit the mode's address width: no canonical meaning
		}
		n := 1 + mode/8 + p66(w)
		return n, n
	}
	return 0, 0
}

func minLenInst(x *XInst) int { d, _ := minLens(x); return d }

func genC18() []*InstCase {
	g := &instGen{prop: "C18"}
	shapes := sampleShapes()
	// base + index without displacement for every kind of index register, EBP among them (as an index it needs no displacement byte)
	for _, bi := range [][3]int{{3, 5, 1}, {1, 5, 2}, {4, 5, 1}, {0, 5, 4}, {6, 7, 1}, {2, 0, 8}, {4, 6, 2}, {7, 5, 8}} {
		shapes = append(shapes, MemShape{ASize: 32, Base: bi[0], Index: bi[1], Scale: bi[2]})
	}
	var imms []int64
	for v := int64(-140); v <= 140; v++ {
		imms = append(imms, v)
	}
	imms = append(imms, 0xff, 0x100, 0x7fff, 0x8000, 0xffff, 0xfff0, 0xff80, 0x10000, 0x7fffffff, 0x80000000, 0xffffffff, 0xffffff80, -0x8000, -0x7fffffff)
	k := 0
	for _, mode := range []int{16, 32} {
		for _, mn := range []string{"ADD", "OR", "AND", "SUB", "XOR", "CMP", "ADC", "SBB"} {
			for _, w := range widths {
				for a := 0; a < 8; a++ {
					ra := xgpr(w, a)
					for _, v := range imms {
						k++
						if v > -120 && v < 120 && v != 0 && v != 1 && v != -1 && (int(v)+a+k)%6 != 0 {
							continue // thin out the interior; keep everything near the boundaries
						}
						g.add(mn, mode, fmt.Sprintf("r%d,imm", w), "d="+regClassOf(ra)+" imm="+immClass18(v), ra, ximm(v, k%3))
					}
				}
				for si, sh := range shapes {
					for vi, v := range imms {
						if v > -126 && v < 125 && (vi+si)%16 != 0 {
							continue
						}
						g.add(mn, mode, fmt.Sprintf("m%d,imm", w), memClass(sh)+" imm="+immClass18(v), xmem(sh, w, true, 0, 1), ximm(v, vi%3))
					}
				}
			}
		}
		for _, w := range widths {
			acc := xgpr(w, 0)
			for _, addr := range []int64{0, 1, 0x7f, 0x80, 0xff, 0x100, 0x0ff0, 0x1234, 0x7fff, 0x8000, 0xffff, 0x10000, 0x12345678} {
				sh := MemShape{ASize: 0, Base: -1, Index: -1, Disp: addr, HasDisp: true}
				g.add("MOV", mode, fmt.Sprintf("acc%d,moffs", w), "addr="+immClass(addr), acc, xmem(sh, w, false, 0, 1))
				g.add("MOV", mode, fmt.Sprintf("moffs,acc%d", w), "addr="+immClass(addr), xmem(sh, w, false, 0, 1), acc)
			}
			for a := 0; a < 8; a++ {
				ra := xgpr(w, a)
				for _, v := range boundaryImms {
					g.add("MOV", mode, fmt.Sprintf("r%d,imm", w), "d="+regClassOf(ra)+" imm="+immClass(v), ra, ximm(v, 1))
				}
				if w != 8 {
					g.add("PUSH", mode, fmt.Sprintf("r%d", w), "d="+regClassOf(ra), ra)
					g.add("POP", mode, fmt.Sprintf("r%d", w), "d="+regClassOf(ra), ra)
				}
			}
		}
	}
	return g.cases
}

// immediate classes around the imm8 boundary
func immClass18(v int64) string {
	switch {
	case v >= -128 && v <= -120:
		return "s8.lo"
	case v >= 120 && v <= 127:
		return "s8.hi"
	case v >= -140 && v < -128:
		return "below"
	case v > 127 && v <= 140:
		return "above"
	}
	return immClass(v)
}

func init() {
	props["C18"] = propCheck{run: func(env *Env, rep *Report) {
		all := genC18()
		rep.Rule = "every case is `[BITS m]` + one instruction of the forms C18 names (ADD/OR/AND/SUB/XOR/CMP/ADC/SBB r|m,imm for every register and ~35 memory shapes with immediates -140..140 and the boundary list; MOV acc<->absolute; MOV reg,imm; PUSH/POP reg); " +
			"judged only when the bytes are a CORRECT encoding (C01 oracle): length must not exceed the shortest valid encoding computed by an independent length model; non-trivial = correct encoding judged; distinct = (mnemonic, form, mode, register class, immediate class, addressing class) cells"
		cases := all
		if env.Tier == "quick" {
			cases = sampleByCell(NewRand(env.Seed, "C18"), all, 2)
		} else {
			rep.Exhaust = true
		}
		rep.Extra["case_space_size"] = len(all)
		runInstCases(env, rep, cases)
	}}
}
