package main

// minLenInst: length of the shortest valid encoding of the instance in its
// mode, for the forms C18 quantifies over; 0 = no model.
func minLenInst(x *XInst) int { return 0 }
