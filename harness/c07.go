package main

import (
	"bytes"
	"encoding/hex"
	"fmt"
	"strings"
)

// C07: nothing is dropped or mis-assembled silently.
//
//	prefix:  DB 0x11,0x22,0x33          (+ deflabel: / DEFEQU EQU 7 so that symbols exist)
//	S        the statement under test
//	suffix:  DB 0xee,0xdd,0xcc / after: / DW after
//
// X = the bytes between the prefix and suffix images; the trailing DW exposes
// the location counter.  Diagnostics are judged differentially against the
// same program without S.
type SilentCase struct {
	Mode   int    `json:"mode"`
	Stmt   string `json:"stmt"`
	Mn     string `json:"mn"`
	Shape  string `json:"shape"`  // operand kinds
	Expect string `json:"expect"` // "valid" (X must be Intent), "invalid" (must be diagnosed), "undefined-symbol", "unknown" (only dropped / location counter are judged)
	X      *XInst `json:"x,omitempty"`
	Cell_  string `json:"cell"`
}

func (c *SilentCase) Kind() string { return "silent" }

func (c *SilentCase) src(with bool) string {
	var b strings.Builder
	if c.Mode == 32 {
		b.WriteString("[BITS 32]\n")
	}
	b.WriteString("DEFEQU\tEQU\t7\n\tDB 0x11,0x22,0x33\ndeflabel:\n")
	if with {
		b.WriteString("\t" + c.Stmt + "\n")
	}
	b.WriteString("\tDB 0xee,0xdd,0xcc\nafter:\n\tDW after\n")
	return b.String()
}

func (c *SilentCase) Reqs() []Req {
	return []Req{{Src: []byte(c.src(true))}, {Src: []byte(c.src(false))}}
}

func (c *SilentCase) Judge(rs []Res, env *Env) Outcome {
	o := Outcome{Cell: c.Cell_}
	r, base := rs[0], rs[1]
	if ok, _ := env.accepted(&base); !ok || !bytes.Equal(base.Out, []byte{0x11, 0x22, 0x33, 0xee, 0xdd, 0xcc, 0x06, 0x00}) {
		o.Status, o.Note = Inconclusive, "the frame program without S does not assemble to its known image: "+hex.EncodeToString(base.Out)
		return o
	}
	if r.ParseErr != "" || r.Died || r.Crashed() {
		o.Status, o.Note = Rejected, "failing exit / parse error"
		return o
	}
	baseDiag := map[string]bool{}
	for _, l := range base.Log {
		baseDiag[parseLog(l).Msg] = true
	}
	// a refusal is an error-level line or an info-level line that reports an error in words; warnings are not.  The premise of
	// the property, though, is "exit status 0 and no ERROR-LEVEL diagnostic": a refusal that is only worded ("Error: ..." filed
	// at info level, which is what colog does with gosk's capitalised prefix) leaves the premise true, so the statement still
	// has to be in the output.  Such cases are judged like accepted ones and carry the kind prefix "quiet-refusal:".
	worded := ""
	for _, l := range env.RejectDiags(&r) {
		if !baseDiag[parseLog(l).Msg] {
			worded = l
			break
		}
	}
	if worded != "" {
		for _, l := range env.ErrorDiags(&r) {
			if !baseDiag[parseLog(l).Msg] {
				o.Status, o.Note = Rejected, "diagnosed"
				return o
			}
		}
	}
	// silently accepted
	out := r.Out
	fail := func(kind, detail string) Outcome {
		o.Status = Violated
		how := "is accepted without any diagnostic"
		if worded != "" {
			kind = "quiet-refusal:" + kind
			how = "ends with exit status 0 and no error-level line (only `" + clipStr(worded, 160) + "`)"
		}
		o.Viols = []Violation{{Sig: fmt.Sprintf("C07|%s|m%d|%s %s", kind, c.Mode, c.Mn, c.Shape),
			Detail: fmt.Sprintf("[BITS %d] `%s` %s; output %s: %s", c.Mode, c.Stmt, how, hex.EncodeToString(out), detail)}}
		return o
	}
	if len(out) < 8 || !bytes.Equal(out[:3], []byte{0x11, 0x22, 0x33}) || !bytes.Equal(out[len(out)-5:len(out)-2], []byte{0xee, 0xdd, 0xcc}) {
		return fail("frame-damaged", "the statements around S no longer have their bytes")
	}
	x := out[3 : len(out)-5]
	loc := int(le(out[len(out)-2:], 2))
	trueAfter := len(out) - 2
	if c.Expect == "silent-ok" {
		if len(x) != 0 {
			return fail("bytes-from-directive", "a directive that must emit nothing produced bytes")
		}
		o.Status = Held
		return o
	}
	if len(x) == 0 {
		return fail("dropped", "no bytes were emitted for the statement")
	}
	if loc != trueAfter {
		return fail("location-counter", fmt.Sprintf("the label after the statement has the value %d but is at offset %d", loc, trueAfter))
	}
	in := Decode(x, c.Mode)
	o.Decodes = []DecQ{{Bytes: clip(x, 15), Mode: c.Mode}}
	switch c.Expect {
	case "invalid":
		return fail("accepted-invalid", fmt.Sprintf("this is not a legal instruction form, yet %s was emitted (%s)", hex.EncodeToString(x), in))
	case "undefined-symbol":
		return fail("zero-substituted", fmt.Sprintf("the statement refers to a symbol that is defined nowhere, yet %s was emitted (%s)", hex.EncodeToString(x), in))
	case "valid":
		xi := *c.X
		if m := xi.Match(in, len(x)); m != nil {
			return fail("wrong-instruction", m.Detail)
		}
		if in.Len != len(x) {
			return fail("wrong-instruction", fmt.Sprintf("decodes to %s (%d bytes) but %d bytes were emitted", in, in.Len, len(x)))
		}
	default:
		// outside the instance model: the decoded operation must at least be the named one
		want := canonOp(c.Mn)
		if spec, ok := noopTable[c.Mn]; ok {
			want = spec.Op
		}
		if pb, isPfx := prefixMnemonics[c.Mn]; isPfx && c.Shape == "-" {
			// a prefix written as a statement of its own: exactly that prefix byte
			if len(x) == 1 && x[0] == pb {
				o.Status = Held
				return o
			}
			return fail("wrong-instruction", fmt.Sprintf("the prefix %s is the byte %02x, %s was emitted", c.Mn, pb, hex.EncodeToString(x)))
		}
		if in.Bad != "" {
			return fail("wrong-instruction", "the bytes do not decode: "+in.Bad)
		}
		got := in.Op
		if got == "SAL" {
			got = "SHL"
		}
		if (want == "JMP" || want == "CALL") && got == want+"F" && strings.Contains(c.Shape, "far") {
			got = want // a seg:off operand makes it the far form
		}
		if modelledOps[want] && got != want && got != "WAIT" {
			return fail("wrong-instruction", fmt.Sprintf("decodes to %s", in))
		}
		if c.Expect == "unknown" {
			if in.Len != len(x) {
				return fail("wrong-instruction", fmt.Sprintf("decodes to %s (%d bytes) but %d bytes were emitted", in, in.Len, len(x)))
			}
			if why := looseOperands(c, in); why != "" {
				return fail("wrong-operands", fmt.Sprintf("%s: decodes to %s", why, in))
			}
		}
	}
	o.Status = Held
	return o
}

func init() { registerKind("silent", func() Case { return &SilentCase{} }) }

// operations the reference decoder names the same way as the mnemonic
var modelledOps = func() map[string]bool {
	m := map[string]bool{}
	for _, n := range aluNames {
		m[n] = true
	}
	for _, n := range shiftNames {
		m[n] = true
	}
	for _, n := range []string{"MOV", "TEST", "XCHG", "LEA", "PUSH", "POP", "INC", "DEC", "NOT", "NEG", "MUL", "IMUL", "DIV", "IDIV", "IN", "OUT", "INT", "RET", "RETF", "CALL", "JMP",
		"MOVZX", "MOVSX", "BT", "BTS", "BTR", "BTC", "BSF", "BSR", "SHLD", "SHRD", "XADD", "CMPXCHG", "BSWAP", "LGDT", "LIDT", "SGDT", "SIDT", "LLDT", "LTR", "SLDT", "STR", "LMSW", "SMSW", "VERR", "VERW", "ARPL", "LAR", "LSL",
		"LDS", "LES", "LSS", "LFS", "LGS", "BOUND", "ENTER", "LOOP", "LOOPE", "LOOPNE", "JCXZ", "JECXZ", "INVLPG", "AAM", "AAD"} {
		m[n] = true
	}
	for _, cc := range ccNames {
		m["J"+cc] = true
		m["SET"+cc] = true
	}
	for _, s := range noopTable {
		m[s.Op] = true
	}
	return m
}()

var prefixMnemonics = map[string]byte{"LOCK": 0xf0, "REP": 0xf3, "REPE": 0xf3, "REPZ": 0xf3, "REPNE": 0xf2, "REPNZ": 0xf2}

type opndKind struct {
	Name  string
	Text  string
	Undef bool
}

var c07Operands = []opndKind{
	{"r8", "CL", false}, {"r16", "DX", false}, {"r32", "EBX", false}, {"acc8", "AL", false}, {"acc16", "AX", false}, {"acc32", "EAX", false}, {"sreg", "ES", false}, {"creg", "CR0", false},
	{"imm-small", "5", false}, {"imm-mid", "0x3f8", false}, {"imm-large", "0x12345", false}, {"string", "\"ab\"", false},
	{"mem", "[BX]", false}, {"mem-e", "[ESI]", false}, {"mem8", "BYTE [SI+4]", false}, {"mem32", "DWORD [EBX+8]", false},
	{"label", "deflabel", false}, {"equ", "DEFEQU", false}, {"undef-label", "nolabel", true}, {"undef-mem", "[nowhere]", true}, {"undef-expr", "NOEQU+1", true}, {"far", "8:0x10", false},
	{"far-undef", "8:nowhere", true}, {"far-dword-undef", "DWORD 2*8:nowhere", true}, {"undef-mem-disp", "[BX+nowhere]", true},
}

// mnemonics with a fixed operand count in every NASK/Intel form
var fixedArity = map[string][]int{
	"MOV": {2}, "ADD": {2}, "SUB": {2}, "CMP": {2}, "AND": {2}, "OR": {2}, "XOR": {2}, "ADC": {2}, "SBB": {2}, "TEST": {2}, "XCHG": {2}, "LEA": {2},
	"NOT": {1}, "NEG": {1}, "INC": {1}, "DEC": {1}, "MUL": {1}, "DIV": {1}, "IDIV": {1}, "PUSH": {1}, "POP": {1}, "INT": {1}, "IN": {2}, "OUT": {2},
	"SHL": {2}, "SHR": {2}, "SAR": {2}, "SAL": {2}, "ROL": {2}, "ROR": {2}, "RCL": {2}, "RCR": {2}, "LGDT": {1}, "LIDT": {1}, "CALL": {1}, "JMP": {1}, "MOVZX": {2}, "MOVSX": {2},
}

func arityOK(mn string, n int) (known bool, ok bool) {
	if spec, isNoop := noopTable[mn]; isNoop {
		_ = spec
		switch mn {
		case "RET", "RETN", "RETF":
			return true, n <= 1
		case "FCOM", "FCOMP", "FUCOM", "FUCOMP", "FXCH", "FADDP", "FMULP", "FSUBP", "FSUBRP", "FDIVP", "FDIVRP":
			return false, true // have operand forms as well
		case "MOVSB", "MOVSW", "MOVSD", "CMPSB", "CMPSW", "CMPSD", "STOSB", "STOSW", "STOSD", "LODSB", "LODSW", "LODSD", "SCASB", "SCASW", "SCASD", "INSB", "INSW", "INSD", "OUTSB", "OUTSW", "OUTSD", "XLATB":
			return true, n == 0
		}
		return true, n == 0
	}
	if _, isPfx := prefixMnemonics[mn]; isPfx {
		return true, n == 0
	}
	for _, j := range jumpMnemonics {
		if j == mn {
			return true, n == 1
		}
	}
	if a, ok := fixedArity[mn]; ok {
		for _, k := range a {
			if k == n {
				return true, true
			}
		}
		return true, false
	}
	return false, true
}

func genC07(env *Env, r *Rand, full bool) []Case {
	ops := grammarOpcodes(env.Repo)
	var cases []Case
	pseudo := map[string]bool{"DB": true, "DW": true, "DD": true, "DQ": true, "DT": true, "RESB": true, "RESW": true, "RESD": true, "RESQ": true, "REST": true, "ORG": true, "ALIGNB": true, "ALIGN": true, "TIMES": true, "END": true, "INCO": true}
	k := 0
	for _, mode := range []int{16, 32} {
		for _, mn := range ops {
			if pseudo[mn] {
				continue
			}
			var shapes [][]opndKind
			shapes = append(shapes, nil)
			for _, a := range c07Operands {
				shapes = append(shapes, []opndKind{a})
			}
			for _, a := range c07Operands {
				for _, b := range c07Operands {
					k++
					if full || (k*7)%23 < 4 {
						shapes = append(shapes, []opndKind{a, b})
					}
				}
			}
			for i := 0; i < 6; i++ {
				shapes = append(shapes, []opndKind{Pick(r, c07Operands), Pick(r, c07Operands), Pick(r, c07Operands)})
			}
			// a fixed set of three-operand lists: a plausible two-operand statement with one operand too many (and the IMUL-like forms)
			byName := func(n string) opndKind {
				for _, o := range c07Operands {
					if o.Name == n {
						return o
					}
				}
				panic("no operand kind " + n)
			}
			for _, t := range [][3]string{{"r32", "imm-small", "imm-small"}, {"r16", "imm-small", "r16"}, {"r32", "r32", "imm-small"}, {"r16", "mem", "imm-small"}, {"acc16", "imm-small", "equ"},
				{"mem", "r16", "imm-small"}, {"r32", "imm-mid", "r32"}, {"acc32", "equ", "label"}} {
				shapes = append(shapes, []opndKind{byName(t[0]), byName(t[1]), byName(t[2])})
			}
			for _, sh := range shapes {
				var names, texts []string
				undef := false
				for _, o := range sh {
					names = append(names, o.Name)
					texts = append(texts, o.Text)
					undef = undef || o.Undef
				}
				stmt := mn
				if len(texts) > 0 {
					stmt += " " + strings.Join(texts, ",")
				}
				expect := "unknown"
				if known, ok := arityOK(mn, len(sh)); known && !ok {
					expect = "invalid"
				} else if undef {
					expect = "undefined-symbol"
				}
				for _, o := range sh {
					if o.Name == "string" {
						expect = "invalid" // no instruction takes a string operand
					}
				}
				// a port / interrupt number is an 8-bit field, not a value taken modulo something
				if (mn == "IN" || mn == "OUT" || mn == "INT") && expect == "unknown" {
					for _, o := range sh {
						if o.Name == "imm-large" || o.Name == "imm-mid" {
							expect = "invalid"
						}
					}
				}
				shape := strings.Join(names, ",")
				if shape == "" {
					shape = "-"
				}
				cases = append(cases, &SilentCase{Mode: mode, Stmt: stmt, Mn: mn, Shape: shape, Expect: expect, Cell_: fmt.Sprintf("%s %s m%d", mn, shape, mode)})
			}
		}
		// valid instances from the clean pool, embedded: must be represented exactly
		// (the instance space as such, including its listed defects, is C01's and C03's)
		nv := 1500
		if full {
			nv = 20000
		}
		for i := 0; i < nv; i++ {
			x := poolInst(r, mode)
			if !sizeSafe(x) {
				continue
			}
			st := PStmt{K: "inst", X: x}
			cases = append(cases, &SilentCase{Mode: mode, Stmt: x.Stmt(), Mn: x.Mn, Shape: "pool:" + stmtKindOf(st), Expect: "valid", X: x, Cell_: fmt.Sprintf("pool %s m%d", stmtKindOf(st), mode)})
		}
		// data directives with undefined symbols / wrong kinds
		for _, d := range []string{"DB nolabel", "DW nolabel", "DD nolabel", "DB NOEQU+1", "DW \"ab\"", "DD \"abcd\"", "RESB nolabel", "ALIGNB nolabel", "DW deflabel+nolabel", "DB 1,nolabel,2", "RESB nolabel-$"} {
			cases = append(cases, &SilentCase{Mode: mode, Stmt: d, Mn: strings.Fields(d)[0], Shape: "data:" + strings.Fields(d)[1], Expect: "undefined-symbol", Cell_: "data " + d})
		}
		// lines that are not statements at all: lower-case and misspelt mnemonics, a word alone on its line, junk after a statement
		for _, l := range []string{"hlt", "Ret", "nop", "cli", "HTL", "NOPE", "foo", "foo bar", "MOVE AX,1", "JMPP deflabel", "ADDD", "mov ax,1", "Mov AX,1", "mOV AX,1", "HLT X", "NOP NOP", "db 1", "Db 1",
			"deflabel", "after", "DEFEQU", "AX", "5", "MOV", "hlt ; c", "_x", "x1", "RETT", "STII", "org 0", "equ", "X1 equ 5", "HLT:", "MOV AX 1", "MOV AX;1", "MOV,AX,1"} {
			cases = append(cases, &SilentCase{Mode: mode, Stmt: l, Mn: strings.Fields(l + " .")[0], Shape: "notstmt:" + strings.ReplaceAll(l, " ", "_"), Expect: "invalid", Cell_: "notstmt " + l})
		}
		// memory operands whose 16-bit register combination does not exist (only BX/BP + SI/DI do)
		for _, m := range []string{"[DX+SI]", "[SI+DI]", "[BX+CX]", "[BX+BP]", "[CX+SI+2]", "[AX+BX]", "[DX+DI]", "[BX+DX+1]", "[SI+CX]", "[BP+AX]"} {
			for _, f := range []string{"MOV AX,%s", "MOV %s,AL", "ADD AX,%s", "SUB %s,CX", "NOT WORD %s", "PUSH WORD %s", "CMP BYTE %s,1", "MOV WORD %s,5", "SHL BYTE %s,1", "XOR DL,%s"} {
				st := fmt.Sprintf(f, m)
				cases = append(cases, &SilentCase{Mode: mode, Stmt: st, Mn: strings.Fields(st)[0], Shape: "badpair:" + m, Expect: "invalid", Cell_: "badpair " + strings.Fields(st)[0] + " " + m})
			}
		}
		// an EQU that takes the name of a label defined above it and mentions that name: a definition in terms of itself
		for _, d := range []string{"deflabel\tEQU\tdeflabel+1\n\tMOV BX,deflabel", "deflabel\tEQU\tdeflabel*2\n\tDW deflabel", "deflabel\tEQU\t1+deflabel\n\tMOV AX,[BX+deflabel]"} {
			cases = append(cases, &SilentCase{Mode: mode, Stmt: d, Mn: "EQU", Shape: "selfref-label-equ:" + strings.Fields(d)[2], Expect: "invalid", Cell_: "selfref label/equ " + strings.Fields(d)[2]})
		}
		// forward reference in data after a branch has pre-seeded the symbol table
		cases = append(cases, &SilentCase{Mode: mode, Stmt: "JNZ after\n\tDW after", Mn: "DW", Shape: "data:forward-after-branch", Expect: "fwd", Cell_: "data forward-after-branch"})
	}
	return cases
}

func init() {
	props["C07"] = propCheck{run: func(env *Env, rep *Report) {
		env.InitBaseline()
		r := NewRand(env.Seed, "C07")
		cases := genC07(env, r, env.Tier == "thorough")
		rep.Rule = "every mnemonic of the grammar's Opcode rule (read from the tree, pseudo-instructions aside) x operand lists of 0..3 operands over 17 operand kinds (r8 r16 r32 Sreg CRn small/large immediate, string, unsized/sized memory, defined label, defined EQU, undefined label, undefined label in brackets, undefined EQU expression, seg:off), both modes; data directives with undefined symbols; valid instances of the instruction model; " +
			"each statement S is embedded between statements with known images and followed by `after: DW after`; a case is non-trivial when gosk ACCEPTS it silently (exit 0, no new diagnostic relative to the same program without S): then the bytes between the frame must be non-empty, the label after S must equal its true offset, " +
			"S must not be an illegal form (wrong operand count, string operand) or refer to an undefined symbol, and the bytes must decode to S (exactly for modelled instances; otherwise by operation name, with every written operand found among the decoded operands - registers by class and number, immediates/labels/EQUs by value modulo the field or operand width, branch targets by address, memory operands by address size, base and displacement - and no decoded register or memory operand that was not written); distinct = (mnemonic, operand shape, mode) cells"
		if env.Tier == "thorough" {
			rep.Exhaust = true
		}
		outs := RunCases(env, cases)
		// fwd case: judged separately (needs the value)
		runInstLikeXcheck(env, rep, outs)
		diag, silent := 0, 0
		for _, o := range outs {
			if o.Status == Rejected {
				diag++
			} else if o.Status == Held || o.Status == Violated {
				silent++
			}
		}
		rep.Extra["diagnosed_or_failed"] = diag
		rep.Extra["silently_accepted"] = silent
		for i := 0; i < len(cases) && len(rep.Samples) < 6; i += len(cases)/6 + 1 {
			sc := cases[i].(*SilentCase)
			rep.AddSample(map[string]any{"mode": sc.Mode, "statement": sc.Stmt, "expectation": sc.Expect, "verdict": outs[i].Status.String(), "note": outs[i].Note})
		}
		rep.Add(cases, outs)
	}}
}

func runInstLikeXcheck(env *Env, rep *Report, outs []Outcome) { xcheckProg(env, rep, outs) }
