package main

import (
	"encoding/hex"
	"fmt"
	"io"
	"os"
)

// devAsm: `vcheck asm < file` assembles stdin with the worker and prints what
// was observed.  A development aid, not part of any check.
func devAsm() {
	env, err := NewEnv("quick", 0, false)
	if err != nil {
		fmt.Println(err)
		os.Exit(2)
	}
	defer env.Close()
	src, _ := io.ReadAll(os.Stdin)
	rs := env.Pool.RunAll([]Req{{Src: src, Stats: true}})
	r := rs[0]
	fmt.Printf("ok=%v perr=%q panic=%q died=%v exit=%d sig=%s steps=%d cpu_us=%d\n", r.OK(), r.ParseErr, r.Panic, r.Died, r.ExitCode, r.Signal, r.Steps, r.CPUus)
	fmt.Printf("out(%d)=%s\n", len(r.Out), hex.EncodeToString(r.Out))
	for _, l := range r.Log {
		fmt.Println("log:", l)
	}
	if r.Stdout != "" {
		fmt.Printf("stdout: %q\n", r.Stdout)
	}
	if r.Stderr != "" {
		fmt.Printf("stderr: %s\n", r.Stderr)
	}
}

// devPool: assemble many single pool statements and list the ones gosk refuses.
func devPool() {
	env, err := NewEnv("quick", 0, false)
	if err != nil {
		fmt.Println(err)
		os.Exit(2)
	}
	defer env.Close()
	env.InitBaseline()
	r := NewRand(1, "devpool")
	var reqs []Req
	var stmts []PStmt
	var modes []int
	for i := 0; i < 6000; i++ {
		mode := 16 + 16*(i%2)
		s := poolStmt(r, mode)
		c := &ConcatCase{Mode: mode}
		reqs = append(reqs, Req{Src: c.src([]PStmt{s})})
		stmts = append(stmts, s)
		modes = append(modes, mode)
	}
	rs := env.Pool.RunAll(reqs)
	seen := map[string]int{}
	for i := range rs {
		if ok, why := env.accepted(&rs[i]); !ok {
			k := fmt.Sprintf("m%d %s", modes[i], stmtKindOf(stmts[i]))
			seen[k]++
			if seen[k] <= 2 {
				fmt.Printf("%s :: %s :: %s\n", k, stmts[i].Line(), oneLine(why, 120))
			}
		}
	}
	fmt.Println(seen)
}
