#!/usr/bin/env python3
# usage: store_seed.py <id> <round-note> <caught_by,comma,separated> [strengthening note]
import json, sys, shutil, os
sid, note, caught = sys.argv[1], sys.argv[2], sys.argv[3].split(',')
extra = sys.argv[4] if len(sys.argv) > 4 else ""
src = f"/tmp/seed/{sid}"; dst = f"/verif/seeded/{sid}"
os.makedirs(dst, exist_ok=True)
for f in os.listdir(src):
    if f in ("gosk",) or os.path.isdir(os.path.join(src, f)): continue
    if os.path.getsize(os.path.join(src, f)) > 200000: continue
    shutil.copy(os.path.join(src, f), dst)
m = json.load(open(os.path.join(src, "meta.json")))
out = {"property": m.get("property"), "summary": m.get("summary"), "needs": m.get("needs"), "files": m.get("files"),
       "source": note, "agent_ran": m.get("ran"),
       "confirmed_by_me": ["verify_seed.sh: patch applies to /repo HEAD, suite passes with it, demonstration fails with it and passes without it", "runmut.sh against the checks"],
       "caught_by": caught}
if extra: out["strengthening"] = extra
json.dump(out, open(os.path.join(dst, "meta.json"), "w"), indent=1, ensure_ascii=False)
print("stored", dst, sorted(os.listdir(dst)))
