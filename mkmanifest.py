#!/usr/bin/env python3
"""Regenerates MANIFEST.json from the table below (kept in one place so that the
claimed checks, their notes and the not_applicable list stay consistent)."""
import json, subprocess, os

HERE = os.path.dirname(os.path.abspath(__file__))

# id -> (technique, level text, level note, design ref, exhaustive?)
CHECKS = {
 "C01": ("runtime monitoring: reference-decoder oracle (own IA-32 decoder, cross-checked by objdump) over enumerated single-statement executions",
         "Exploration with an executable ISA oracle: every (mnemonic x form x register x boundary immediate x memory shape x mode) cell of the quantifier is assembled by the real pipeline and the emitted bytes are decoded and compared with the statement's meaning; thorough enumerates the whole instance space (~6e4 cases), quick takes two seed-chosen cases per cell.",
         "Trusts the harness's decoder (each distinct byte string is also disassembled by objdump; disagreement makes the case inconclusive) and the diagnostics classifier that decides 'assembled without reporting an error'. Says nothing about statements outside the instance model. 11 listed findings (F101-F111) absorb the defects that remain in the tree.",
         "DESIGN.md §5 C01"),
 "C02": ("runtime monitoring: reference-decoder oracle restricted to the memory operand, complete addressing space enumerated",
         "Exploration over the COMPLETE addressing space of the quantifier (16-bit shapes, 32-bit base x index x scale x displacement, 4 spellings) x 10 carrier instructions x widths x modes: thorough runs all ~2e5 cases, quick two per (addressing class, displacement class, carrier, width, mode) cell; only the decoded effective address is judged.",
         "Same trusted base as C01. A carrier that is mis-encoded outside its memory operand is inconclusive here and reported by C01. Findings F201-F204.",
         "DESIGN.md §5 C02"),
 "C03": ("runtime monitoring: output walker (statement-by-statement decode of the flat image) versus embedded label/$ values",
         "Exploration: every instruction instance of the C01/C02 spaces followed by a label with probes before and after it (systematic, thorough: all), plus seeded random programs of 5-40 statements with labels anywhere; the walker recovers true offsets from the output alone and every embedded label/$ value, branch target and the end-of-output label must agree.",
         "Programs containing a statement whose encoding is itself wrong are inconclusive for offsets beyond it (the end-of-output check still applies). Random programs use the size-clean pool. Findings F301-F310.",
         "DESIGN.md §5 C03"),
 "C04": ("runtime monitoring: decoded branch target versus walked address of the target statement, finite product enumerated",
         "Exploration: 31 jump mnemonics + CALL x displacements -140..140 and around +-32768 x direction x filler x label/numeric target x ORG x BITS, with/without labels after the branch, plus far JMP boundary values; thorough enumerates the product (~4e4 programs).",
         "Trusts decoder (objdump cross-check) and walker. Findings F401-F403 (16-bit mode: pass 1 always sizes short forms).",
         "DESIGN.md §5 C04"),
 "C05": ("runtime monitoring: independent byte model of the data directives compared byte-exactly through the walker",
         "Exploration: ALIGNB at every residue for every power of two (exhaustive, 5 origins), seeded DB/DW/DD lists of length 1..64 (numbers incl. out-of-range, expressions, strings, labels, $), RESB const / addr-$, directives that must emit nothing, with location-counter probes.",
         "The model evaluates operands with math/big; directive forms gosk refuses with a diagnostic are out of scope.",
         "DESIGN.md §5 C05"),
 "C06": ("runtime monitoring: math/big expression evaluator versus the value observed in the output (DD lanes, immediates, displacements, RESB length)",
         "Exploration: seeded expression trees up to depth 4 over boundary literals, five operators, parentheses, chained EQU names (reused after products/differences) and $, placed in every operand position that admits an expression, each in two spacings; plus differently interleaved constant terms.",
         "Intermediate values are kept below 2^62 so that no verdict hinges on 64-bit overflow; division by zero is not generated.",
         "DESIGN.md §5 C06"),
 "C07": ("runtime monitoring: differential diagnostics + frame-embedded statement; silent acceptance judged by decoder / legality rules",
         "Exploration: every mnemonic of the grammar (read from the tree) x operand lists of 0..3 operands over 17 operand kinds x modes (thorough: all 1- and 2-operand shapes), data directives with undefined symbols, pool instances; a statement accepted silently must be represented (non-empty, right location counter, right instruction) and must not be illegal or refer to undefined symbols.",
         "Legality is rule-based (operand count of fixed-arity mnemonics, string operands, undefined symbols); forms outside the instance model are judged by operation name and operand presence. The premise is taken literally: a refusal that is only worded at info level (exit 0, no error-level line) does not excuse a missing statement (kind prefix quiet-refusal:). Findings F701-F719, exact signatures in KNOWN_SIGNATURES/C07.txt.",
         "DESIGN.md §5 C07"),
 "C08": ("runtime monitoring: strict COFF layout validator + Go debug/pe as independent reader over generated objects",
         "Exploration: seeded WCOFF programs (.text empty to >64 KiB, GLOBAL lists with names of length 1..40 incl. 8/9, undefined/duplicate/prefix-related names, 1-4 GLOBAL statements, [FILE] names of length 0..64).",
         "debug/pe is the independent reader (llvm-readobj/objdump are not needed).",
         "DESIGN.md §5 C08"),
 "C09": ("runtime monitoring: relational (.text == flat image) + walker offsets versus COFF symbol table",
         "Exploration: seeded 32-bit programs x GLOBAL subsets/orderings/placements x name lengths x [FILE]; each assembled with and without FORMAT.",
         "True label offsets come from the walker on the flat image (size-clean pool).",
         "DESIGN.md §5 C09"),
 "C10": ("runtime monitoring: recorded call histories in worker processes compared call-by-call with fresh-process (real CLI) references",
         "Exploration of histories: a seeded pool (both formats, both modes, 70-symbol programs, shared statement texts, refused programs); every program's reference comes from two fresh CLI processes in different environments; 16 (quick) / 64 (thorough) histories of 200 / 5000 calls with repetition and re-execution of parsed trees.",
         "The clock cannot be faked; time dependence would only show across runs. Worker deaths (os.Exit) are excluded from histories by construction.",
         "DESIGN.md §5 C10"),
 "C11": ("runtime monitoring: metamorphic relation (EQU-abstracted program versus textually inlined program, byte equality)",
         "Exploration: seeded programs whose immediates, displacements, data lanes, RESB/ALIGNB arguments and EQU bodies use 1-5 chained EQU names, versus the inlined program; EQU-only prefixes emit nothing.",
         "Both variants go through the same pipeline; refusals are symmetric and out of scope.",
         "DESIGN.md §5 C11"),
 "C12": ("runtime monitoring: metamorphic relation (token-preserving re-layouts versus canonical layout, byte equality)",
         "Exploration: seeded programs x 6 (quick) / 12 (thorough) re-layouts varying comments, blank lines, indentation, blanks at every permitted gap, trailing whitespace, LF/CRLF/CR, final newline.",
         "Only gaps where NASK lexically allows whitespace are varied (not inside tokens, not between a label and its colon, not after a unary minus).",
         "DESIGN.md §5 C12"),
 "C13": ("runtime monitoring: crash monitor (worker liveness, panic/fatal text), parser step counter as virtual time, CPU-time watchdog",
         "Exploration with hostile inputs: all mnemonics x arities 0-4 x operand kinds, huge numbers in every numeric position, malformed directives, templates, random bytes, token soup, token/line mutations, size families to 1e5 tokens.",
         "Unbounded input space is sampled; polynomial time is restated as bounded growth of pigeon's expression counter at doubling sizes plus a CPU watchdog. Finding F1301 (parser recursion depth).",
         "DESIGN.md §5 C13"),
 "C14": ("runtime monitoring: metamorphic relation out(A;B;C) == out(A)++out(B)++out(C)",
         "Exploration: seeded label-free statement sequences from the clean pool (pairs, triples, single insertions at every position of 20-statement programs), both modes.",
         "Statements with listed encoding defects are excluded from the pool.",
         "DESIGN.md §5 C14"),
 "C15": ("runtime monitoring: metamorphic relation under injective renaming (flat: byte equality; COFF: equality except names)",
         "Exploration: seeded programs with labels and EQUs x adversarial and random renamings; reserved-prefix exclusion list read from the tree's grammars.",
         "Names with a reserved word / mnemonic / register as a prefix are excluded because both grammars reject them as identifiers.",
         "DESIGN.md §5 C15"),
 "C16": ("runtime monitoring: metamorphic relation between images at different origins, absolute lanes located by the walker",
         "Exploration: seeded 16-bit programs x 4 (quick) / 7 (thorough) origins; same length, identical bytes outside absolute lanes, delta inside.",
         "RESB x-$ and numeric branch targets are excluded (their size legitimately depends on absolute values).",
         "DESIGN.md §5 C16"),
 "C17": ("runtime monitoring: metamorphic relation (program versus concatenation of its [BITS]-segments) + walker under per-segment modes",
         "Exploration: seeded programs of 1-5 segments with the first directive placed among other directives, EQUs, comments; and mode-switching programs with labels.",
         "Segments are label-free (concatenation part) or from the size-clean pool (walk part).",
         "DESIGN.md §5 C17"),
 "C18": ("runtime monitoring: emitted length versus an independent shortest-encoding length model, for encodings judged correct by the C01 oracle",
         "Exploration: the six immediate-group ALU operations (+ADC/SBB) x every register and ~35 memory destinations x immediates -140..140 and boundaries, MOV acc<->moffs, MOV reg,imm, PUSH/POP reg, both modes; thorough enumerates all (~1.2e5).",
         "An immediate qualifies for the imm8 form by its WRITTEN value (what NASK does); emitted < modelled minimum makes the case inconclusive (model error), never a violation.",
         "DESIGN.md §5 C18"),
 "C19": ("runtime monitoring: the real CLI binary in fresh processes (exit status, stdout, output file) versus contract and in-process API",
         "Exploration: argument vectors of length 0-4 over path kinds, seeded programs through CLI versus API, UTF-8 and Shift_JIS comments (0x5c/0x7c trail bytes, half-width katakana, random pairs, at end of line before LF/CRLF), failing runs into fresh and pre-filled destinations.",
         "Runs as root, so 'unreadable' is replaced by directory / below-a-file sources; no I/O fault injection.",
         "DESIGN.md §5 C19"),
}

NOT_APPLICABLE = {
}

def main():
    props = [json.loads(l) for l in open(os.path.join(HERE, "properties.jsonl"))]
    try:
        commits = subprocess.check_output(["git", "-C", "/repo", "log", "--format=%h %s", "b7dcfe3..HEAD"], text=True).strip().splitlines()
    except Exception:
        commits = []
    checks = []
    for p in props:
        pid = p["id"]
        if pid not in CHECKS:
            continue
        tech, text, note, ref = CHECKS[pid]
        checks.append({
            "property_id": pid,
            "quick_cmd": "./check %s quick" % pid,
            "thorough_cmd": "./check %s thorough" % pid,
            "evidence_file": "evidence/%s.json" % pid,
            "replay_cmd_template": "./check replay {path}",
            "engine": "vcheck",
            "level_claimed": {"category": "exploration", "text": text, "design_ref": ref},
            "level_note": note,
            "technique": tech,
        })
    na = []
    for p in props:
        pid = p["id"]
        if pid in CHECKS:
            continue
        na.append({"property_id": pid, "reason": NOT_APPLICABLE.get(pid, "check not built yet in this round (runtime monitoring applies; see DESIGN.md §5)")})
    m = {
        "version": 1,
        "setup_cmd": "./setup.sh",
        "hooks": {
            "guard": "verif",
            "enable": "go build -tags verif -overlay <json>: the worker main (/verif/worker/main.go, //go:build verif) is injected as /repo/cmd/verifworker/main.go through a build overlay; no file under /repo carries the tag, nothing is added to or changed in /repo by the hooks",
            "baseline_off_cmd": "cd /repo && GOFLAGS=-mod=mod GOPROXY=off GOSUMDB=off go test -json -vet=off -count=1 ./...",
            "source_commits": [],
            "add_only": True,
        },
        "engines": [
            {"name": "vcheck", "path": "harness/", "serves_properties": [c["property_id"] for c in checks],
             "kind_free_text": "Go harness (stdlib only): builds gosk's CLI and an overlay-injected in-process worker from /repo's current tree, generates seeded workloads, drives worker processes, judges recorded results with reference-model and relational monitors, matches violations against KNOWN_FINDINGS.txt, writes evidence"},
        ],
        "checks": checks,
        "not_applicable": na,
        "notes": "fix: commits in /repo (not hooks): " + "; ".join(commits),
    }
    json.dump(m, open(os.path.join(HERE, "MANIFEST.json"), "w"), indent=1, ensure_ascii=False)
    print("MANIFEST.json: %d checks, %d not claimed" % (len(checks), len(na)))

if __name__ == "__main__":
    main()
