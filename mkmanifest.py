#!/usr/bin/env python3
"""Regenerates MANIFEST.json from the table below (kept in one place so that the
claimed checks, their notes and the not_applicable list stay consistent)."""
import json, subprocess, os

HERE = os.path.dirname(os.path.abspath(__file__))

# id -> (technique, level text, level note, design ref, exhaustive?)
CHECKS = {
 "C01": ("runtime monitoring: reference-decoder oracle (own IA-32 decoder, cross-checked by objdump) over enumerated single-statement executions",
         "Exploration with an executable ISA oracle: every (mnemonic x form x register x boundary immediate x memory shape x mode) cell of the quantifier is assembled by the real pipeline and the emitted bytes are decoded and compared with the statement's meaning; thorough enumerates the whole instance space (~6e4 cases), quick takes two seed-chosen cases per cell.",
         "Trusts the harness's decoder (each distinct byte string is also disassembled by objdump; disagreement makes the case inconclusive) and the diagnostics classifier that decides 'assembled without reporting an error'. Says nothing about statements outside the instance model.",
         "DESIGN.md §5 C01"),
}

NOT_APPLICABLE = {
}

def main():
    props = [json.loads(l) for l in open(os.path.join(HERE, "properties.jsonl"))]
    try:
        commits = subprocess.check_output(["git", "-C", "/repo", "log", "--format=%h %s", "b7dcfe3..HEAD"], text=True).strip().splitlines()
    except Exception:
        commits = []
    checks = []
    for p in props:
        pid = p["id"]
        if pid not in CHECKS:
            continue
        tech, text, note, ref = CHECKS[pid]
        checks.append({
            "property_id": pid,
            "quick_cmd": "./check %s quick" % pid,
            "thorough_cmd": "./check %s thorough" % pid,
            "evidence_file": "evidence/%s.json" % pid,
            "replay_cmd_template": "./check replay {path}",
            "engine": "vcheck",
            "level_claimed": {"category": "exploration", "text": text, "design_ref": ref},
            "level_note": note,
            "technique": tech,
        })
    na = []
    for p in props:
        pid = p["id"]
        if pid in CHECKS:
            continue
        na.append({"property_id": pid, "reason": NOT_APPLICABLE.get(pid, "check not built yet in this round (runtime monitoring applies; see DESIGN.md §5)")})
    m = {
        "version": 1,
        "setup_cmd": "./setup.sh",
        "hooks": {
            "guard": "verif",
            "enable": "go build -tags verif -overlay <json>: the worker main (/verif/worker/main.go, //go:build verif) is injected as /repo/cmd/verifworker/main.go through a build overlay; no file under /repo carries the tag, nothing is added to or changed in /repo by the hooks",
            "baseline_off_cmd": "cd /repo && GOFLAGS=-mod=mod GOPROXY=off GOSUMDB=off go test -json -vet=off -count=1 ./...",
            "source_commits": [],
            "add_only": True,
        },
        "engines": [
            {"name": "vcheck", "path": "harness/", "serves_properties": [c["property_id"] for c in checks],
             "kind_free_text": "Go harness (stdlib only): builds gosk's CLI and an overlay-injected in-process worker from /repo's current tree, generates seeded workloads, drives worker processes, judges recorded results with reference-model and relational monitors, matches violations against KNOWN_FINDINGS.txt, writes evidence"},
        ],
        "checks": checks,
        "not_applicable": na,
        "notes": "fix: commits in /repo (not hooks): " + "; ".join(commits),
    }
    json.dump(m, open(os.path.join(HERE, "MANIFEST.json"), "w"), indent=1, ensure_ascii=False)
    print("MANIFEST.json: %d checks, %d not claimed" % (len(checks), len(na)))

if __name__ == "__main__":
    main()
