import sys, random, re, collections, json, subprocess
sys.path.insert(0,'/tmp/exp')
from census import run
random.seed(11)
# pool of 16-bit statements believed clean
R8=['AL','CL','DL','BL','AH','CH','DH','BH']; R16=['AX','CX','DX','BX','SP','BP','SI','DI']; R32=['E'+r for r in R16]
MEM16=['[BX]','[SI]','[DI]','[BX+SI]','[BP+DI]','[BX+4]','[BP+6]','[SI-2]','[BX+0x123]','[0x1234]','[BP]']
def imm(w):
    return random.choice([0,1,5,0x7f,-1,-128] + ([0x80,0xff] if w>=8 else []) + ([0x100,0x1234,0x7fff] if w>=16 else []) + ([0x12345,0x7fffffff] if w>=32 else []))
def stmt():
    k=random.randrange(12)
    w=random.choice([8,16,32]); regs={8:R8,16:R16,32:R32}[w]
    alu=random.choice(['ADD','SUB','CMP','AND','OR','XOR','MOV'])
    if k==0: return f'{alu} {random.choice(regs)},{random.choice(regs)}'
    if k==1: return f'{alu} {random.choice(regs)},{imm(w)}'
    if k==2: return f'{alu} {random.choice(regs)},{random.choice(MEM16)}'
    if k==3: return f'{alu} {random.choice(MEM16)},{random.choice(regs)}'
    if k==4: return f'{alu} {random.choice(["BYTE","WORD"])} {random.choice(MEM16)},{imm(8)}'
    if k==5: return random.choice(['HLT','NOP','CLI','STI','RET','CLD','PUSHA','POPA','CBW','LEAVE'])
    if k==6: return f'{random.choice(["PUSH","POP"])} {random.choice(R16+R32)}'
    if k==7: return f'{random.choice(["SHL","SHR","SAR"])} {random.choice(regs)},{random.choice([1,2,4,7])}'
    if k==8: return 'DB '+','.join(str(random.choice([0,1,0x41,255,-1])) for _ in range(random.randint(1,5)))
    if k==9: return random.choice(['DW 0x1234,5','DD 0x12345678','DB "ab;c,d#e"','RESB 3','DB "x", 0x0a, 0'])
    if k==10: return f'INT {random.choice([0x10,0x13,0x15,3])}'
    if k==11: return f'{random.choice(["IN AL,0x60","OUT 0x21,AL","IN AX,DX","OUT DX,AL"])}'
def asm(srcs): 
    return run(srcs)
def hexes(srcs): return [ (r['hex'] if not r.get('perr') and not r.get('panic') else 'ERR:'+(r.get('perr') or r.get('panic'))[:60]) for r in asm(srcs)]
def main():
    # C14: concatenation
    N=400
    A=[[stmt() for _ in range(random.randint(1,5))] for _ in range(N)]
    B=[[stmt() for _ in range(random.randint(1,5))] for _ in range(N)]
    ha=hexes(['\n'.join(a)+'\n' for a in A]); hb=hexes(['\n'.join(b)+'\n' for b in B]); hab=hexes(['\n'.join(a+b)+'\n' for a,b in zip(A,B)])
    bad=[(a,b,x,y,z) for a,b,x,y,z in zip(A,B,ha,hb,hab) if x+y!=z]
    print('C14 concat mismatches',len(bad),'of',N)
    for t in bad[:3]: print('   ',t)
    # single-statement independence
    S=[stmt() for _ in range(600)]
    hs=dict(zip(S,hexes([s+'\n' for s in S])))
    P=[[random.choice(S) for _ in range(20)] for _ in range(200)]
    hp=hexes(['\n'.join(p)+'\n' for p in P])
    bad=[(p,h) for p,h in zip(P,hp) if ''.join(hs[s] for s in p)!=h]
    print('C14 singles mismatches',len(bad),'of',len(P))
    for p,h in bad[:2]:
        print('   ',p[:6],h[:40])
    # C12: layout
    def relayout(p, eol):
        out=[]
        for s in p:
            if random.random()<0.3: out.append(random.choice([';',' # ','\t; '])+'comment, "q" [x] ; # more')
            if random.random()<0.2: out.append('')
            m=re.match(r'(\w+)(?: (.*))?$',s)
            mn,ops=m.group(1),m.group(2)
            line=random.choice(['','  ','\t','\t\t'])+mn
            if ops:
                if ops.startswith('"') or '"' in ops: o2=ops
                else: o2=re.sub(r',',lambda _:random.choice([',',' ,',', ',' , ','\t,\t']),ops)
                line+=random.choice([' ','  ','\t'])+o2
            line+=random.choice(['',' ','\t','  ; c','\t# c "x"'])
            out.append(line)
        return eol.join(out)+random.choice([eol,eol+eol,''])
    lay=[]
    for p in P:
        for eol in ('\n','\r\n','\r'):
            lay.append(relayout(p,eol))
    hl=hexes(lay)
    bad=[(P[i//3],lay[i],hl[i]) for i in range(len(lay)) if hl[i]!=hp[i//3]]
    print('C12 layout mismatches',len(bad),'of',len(lay))
    for t in bad[:4]: print('   ',repr(t[1][:200]),t[2][:80])
    
if __name__=="__main__": main()
