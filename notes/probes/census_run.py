import sys; sys.path.insert(0,'/tmp/exp')
from census import *
random.seed(7)
MEM16=[({'BX':1},0),({'BP':1},0),({'SI':1},0),({'DI':1},0),({'BX':1,'SI':1},0),({'BP':1,'DI':1},4),({'BX':1},4),({'BX':1},-129),({'SI':1},0x1234),({},0x1234)]
MEM32=[({'EAX':1},0),({'EBP':1},0),({'ESP':1},0),({'ESP':1},4),({'EBX':1},16),({'EBX':1},-129),({'EAX':1,'EBX':1},0),({'EAX':1,'ESI':4},8),({'EDX':2},0),({'ECX':8},0x100),({'EBP':1,'EDI':2},-4),({},0x12345678),({'EAX':2},0)]
def memtxt(lin,disp):
    terms=[]
    for r,c in lin.items():
        terms.append(r if c==1 else f'{r}*{c}')
    # if same reg coefficient 2 and only that: render as R+R sometimes
    if len(lin)==1 and list(lin.values())[0]==2 and random.random()<0.5:
        r=list(lin)[0]; terms=[r,r]
    s='+'.join(terms)
    if disp or not terms:
        if terms: s+= ('+%d'%disp if disp>=0 else '%d'%disp)
        else: s=hex(disp)
    return '['+s+']'
def regs(w): return {8:R8,16:R16,32:R32}[w]
cases=[] # (cell, src, mode, intent) intent=(mn,[ops]) ops: ('reg',name)|('imm',val,width)|('mem',size,lin,disp)|('sreg',..)
def add(cell,mode,stmt,intent):
    pre='[BITS 32]\n' if mode==32 else ''
    cases.append((cell,pre+stmt+'\n',mode,intent))
for mode in (16,32):
    mems=[(m,16) for m in MEM16]+[(m,32) for m in MEM32]
    for mn in ['ADD','SUB','CMP','AND','OR','XOR','MOV']:
        for w in (8,16,32):
            for a in regs(w):
                for b in random.sample(regs(w),3):
                    add((mn,f'r{w},r{w}',mode),mode,f'{mn} {a},{b}',(mn,[('reg',a),('reg',b)]))
                for v in IMMS:
                    if abs(v)>= (1<<w) and v>0: continue
                    if v< -(1<<(w-1)): continue
                    add((mn,f'r{w},imm',mode),mode,f'{mn} {a},{v}',(mn,[('reg',a),('imm',v,w)]))
            for (lin,disp),aw in mems:
                a=random.choice(regs(w))
                add((mn,f'r{w},m{aw}',mode),mode,f'{mn} {a},{memtxt(lin,disp)}',(mn,[('reg',a),('mem',w,lin,disp,aw)]))
                add((mn,f'm{aw},r{w}',mode),mode,f'{mn} {memtxt(lin,disp)},{a}',(mn,[('mem',w,lin,disp,aw),('reg',a)]))
                kw={8:'BYTE',16:'WORD',32:'DWORD'}[w]
                for v in random.sample([x for x in IMMS if -(1<<(w-1))<=x<(1<<w)],4):
                    add((mn,f'm{aw}.{w},imm',mode),mode,f'{mn} {kw} {memtxt(lin,disp)},{v}',(mn,[('mem',w,lin,disp,aw),('imm',v,w)]))
    for mn in ['SHL','SHR','SAR']:
        for w in (8,16,32):
            for a in regs(w):
                for v in (1,2,7,31):
                    add((mn,f'r{w},imm8',mode),mode,f'{mn} {a},{v}',(mn,[('reg',a),('imm',v,8)]))
            for (lin,disp),aw in mems:
                kw={8:'BYTE',16:'WORD',32:'DWORD'}[w]
                add((mn,f'm{aw}.{w},imm8',mode),mode,f'{mn} {kw} {memtxt(lin,disp)},3',(mn,[('mem',w,lin,disp,aw),('imm',3,8)]))
    for w in (8,16,32):
        for a in regs(w):
            add(('NOT',f'r{w}',mode),mode,f'NOT {a}',('NOT',[('reg',a)]))
        for (lin,disp),aw in mems:
            kw={8:'BYTE',16:'WORD',32:'DWORD'}[w]
            add(('NOT',f'm{aw}.{w}',mode),mode,f'NOT {kw} {memtxt(lin,disp)}',('NOT',[('mem',w,lin,disp,aw)]))
    for mn in ('PUSH','POP'):
        for w in (16,32):
            for a in regs(w):
                add((mn,f'r{w}',mode),mode,f'{mn} {a}',(mn,[('reg',a)]))
            for (lin,disp),aw in mems:
                kw={16:'WORD',32:'DWORD'}[w]
                add((mn,f'm{aw}.{w}',mode),mode,f'{mn} {kw} {memtxt(lin,disp)}',(mn,[('mem',w,lin,disp,aw)]))
        for s in SREG:
            if mn=='POP' and s=='CS': continue
            add((mn,'sreg',mode),mode,f'{mn} {s}',(mn,[('sreg',s)]))
    for v in IMMS:
        add(('PUSH','imm',mode),mode,f'PUSH {v}',('PUSH',[('imm',v,mode)]))
    for w in (16,32):
        for a in regs(w):
            for v in (2,127,128,-128,-129,1000,0x7fff):
                add(('IMUL',f'r{w},imm',mode),mode,f'IMUL {a},{v}',('IMUL',[('reg',a),('reg',a),('imm',v,w)]))
    for s in SREG:
        for a in R16:
            add(('MOV','sreg,r16',mode),mode,f'MOV {s},{a}',('MOV',[('sreg',s),('reg',a)]))
            add(('MOV','r16,sreg',mode),mode,f'MOV {a},{s}',('MOV',[('reg',a),('sreg',s)]))
    for c in ('CR0','CR2','CR3','CR4'):
        for a in R32:
            add(('MOV','creg,r32',mode),mode,f'MOV {c},{a}',('MOV',[('creg',c),('reg',a)]))
            add(('MOV','r32,creg',mode),mode,f'MOV {a},{c}',('MOV',[('reg',a),('creg',c)]))
    for acc in ('AL','AX','EAX'):
        for p in (0,0x60,0xff):
            add(('IN','acc,imm8',mode),mode,f'IN {acc},{p}',('IN',[('reg',acc),('imm',p,8)]))
            add(('OUT','imm8,acc',mode),mode,f'OUT {p},{acc}',('OUT',[('imm',p,8),('reg',acc)]))
        add(('IN','acc,dx',mode),mode,f'IN {acc},DX',('IN',[('reg',acc),('reg','DX')]))
        add(('OUT','dx,acc',mode),mode,f'OUT DX,{acc}',('OUT',[('reg','DX'),('reg',acc)]))
    for v in (0,3,0x10,0x7f,0x80,0xff):
        add(('INT','imm8',mode),mode,f'INT {v}',('INT',[('imm',v,8)]))
print('cases',len(cases),file=sys.stderr)
rs=run([c[1] for c in cases])
dec=objdump_all([(r['hex'],c[2]) for r,c in zip(rs,cases)])
def norm_imm(v,w): return v & ((1<<w)-1)
def cmp_case(c,r,d):
    cell,src,mode,(mn,ops)=c
    diags=[x for x in r.get('diag',[]) if 'Wrapping in ImmExp' not in x and 'Case ' not in x]
    if r.get('panic'): return 'panic'
    if not r['hex']:
        return 'rejected' if diags else 'dropped'
    if diags: return 'emitted+diag'
    if len(d)!=1: return 'multi-insn'
    a,n,txt=d[0]
    if n!=len(r['hex'])//2: return 'len-mismatch'
    if '(bad)' in txt: return 'bad'
    txt=re.sub(r'^(addr32|data32|addr16|data16|rep[a-z]*|lock) ','',txt)
    omn,oops=split_ops(txt)
    syn={'shl':'shl','sal':'shl'}
    if syn.get(omn,omn)!=syn.get(mn.lower(),mn.lower()): return 'mnemonic:'+omn
    if mn=='IMUL' and len(oops)==2: oops=[oops[0]]+oops
    if len(oops)!=len(ops): return 'opcount'
    for i,(e,o) in enumerate(zip(ops,oops)):
        if e[0]=='reg':
            if o[0]!='reg' or o[1]!=e[1]: return f'op{i}:reg'
        elif e[0] in('sreg','creg'):
            if o[0]!=e[0] or o[1]!=e[1]: return f'op{i}:{e[0]}'
        elif e[0]=='imm':
            if o[0]!='imm': return f'op{i}:notimm'
            w=e[2]
            if mn in('PUSH',): 
                # objdump shows sign-extended to opsize; compare mod min(w)
                pass
            # objdump prints imm at operand size; compare modulo width
            if norm_imm(o[1],w)!=norm_imm(e[1],w): return f'op{i}:immval'
        elif e[0]=='mem':
            if o[0]!='mem': return f'op{i}:notmem'
            _,size,seg,lin,disp=o
            if size is not None and size!=e[1]: return f'op{i}:memsize({size})'
            if seg not in(None,'ds','ss') : return f'op{i}:seg'
            if lin!=e[2]: return f'op{i}:ea-regs'
            aw=e[4]
            if not e[2]: aw=mode
            if norm_imm(disp,aw)!=norm_imm(e[3],aw): return f'op{i}:ea-disp'
    # operand size check via register/mem size keywords already; prefix sanity:
    return 'ok'
tab=collections.defaultdict(collections.Counter); ex={}
for c,r,d in zip(cases,rs,dec):
    k=cmp_case(c,r,d or [])
    tab[c[0]][k]+=1; ex.setdefault((c[0],k),(c[1].replace('[BITS 32]\n','').strip(),r['hex'],[t for _,_,t in (d or [])]))
tot=collections.Counter()
for cell in sorted(tab, key=str):
    ks=tab[cell]
    for k in ks: tot[k]+=ks[k]
    if set(ks)=={'ok'}: continue
    print(cell, dict(ks))
    for k in ks:
        if k!='ok': print('      e.g.',k,ex[(cell,k)])
print(dict(tot), 'cells',len(tab),'clean cells',sum(1 for c in tab if set(tab[c])=={'ok'}), file=sys.stderr)
