import sys, re, collections
sys.path.insert(0,'/tmp/exp')
from census import run, objdump_all
s=open('/repo/internal/gen/grammar.peg').read()
m=re.search(r'\nOpcode = (.*?);',s,re.S)
MN=re.findall(r'"([A-Z0-9]+)"',m.group(1))
KW=['error','fail','invalid','unsupported','unresolved','undefined','unknown','not found','cannot',"can't",'requires','out of range','illegal','missing','見つかりません','失敗','エラー','warn']
def isdiag(l):
    ll=l.lower()
    if '[  warn' in ll or '[ error' in ll or '[ alert' in ll: return True
    return any(k in ll for k in KW)
shapes=['','AX','AL','EAX','5','[BX]','AX,BX','AX,5','AL,[BX]','[BX],AX','EAX,EBX','WORD [BX],5','nolabel','AX,BX,5','ES','AX,nolabel']
pre='MOV AX,0x1111\n'; suf='MOV BX,0x2222\n'
base=run([pre+suf])[0]
based=collections.Counter(base.get('diag',[]))
srcs=[]; meta=[]
for mn in MN:
    for sh in shapes:
        srcs.append(pre+f'{mn} {sh}'.rstrip()+'\n'+suf); meta.append((mn,sh))
rs=run(srcs)
prehex='b81111'; sufhex='bb2222'
cls=collections.Counter(); silent=collections.defaultdict(list)
items=[]
for (mn,sh),r in zip(meta,rs):
    if r.get('perr'): cls['parse-error']+=1; continue
    if r.get('panic'): cls['panic']+=1; silent['panic'].append((mn,sh)); continue
    d=collections.Counter(r.get('diag',[]))
    new=[l for l in (d-based) if isdiag(l)]
    h=r['hex']
    if new: cls['diagnosed']+=1; continue
    if not (h.startswith(prehex) and h.endswith(sufhex)): cls['silent-weird']+=1; silent['weird'].append((mn,sh,h)); continue
    x=h[len(prehex):len(h)-len(sufhex)]
    if not x: cls['silent-dropped']+=1; silent['dropped'].append((mn,sh)); continue
    cls['silent-emitted']+=1; items.append((mn,sh,x))
print(dict(cls))
dec=objdump_all([(x,16) for mn,sh,x in items])
ok=0; wrong=collections.defaultdict(list)
alias={'JE':'jz','JZ':'je'}
for (mn,sh,x),d in zip(items,dec):
    txt=' ; '.join(t for _,_,t in d)
    first=d[0][2].split()[0] if d else ''
    if len(d)==1 and d[0][1]==len(x)//2 and (first.upper().rstrip('WDL')==mn or first.upper()==mn):
        ok+=1
    else:
        wrong[mn].append((sh,x,txt))
print('silent-emitted: mnemonic matches objdump (crudely):',ok,' mismatching mnemonics:',len(wrong))
for mn in sorted(wrong): print('  ',mn,wrong[mn][:2])
print('dropped silently:',sorted(set(mn for mn,sh in silent['dropped'])))
dd=collections.defaultdict(list)
for mn,sh in silent['dropped']: dd[mn].append(sh)
for mn in sorted(dd): print('   dropped',mn,dd[mn])
print('weird:',silent['weird'][:10])
print('panic:',silent['panic'][:20])
