# throwaway census: single-statement instances -> gosk (in-process probe) -> objdump -> compare with intent
import subprocess, json, re, sys, collections, itertools, random
R8=['AL','CL','DL','BL','AH','CH','DH','BH']; R16=['AX','CX','DX','BX','SP','BP','SI','DI']; R32=['E'+r for r in R16]
SREG=['ES','CS','SS','DS','FS','GS']
REGW={}
for r in R8: REGW[r]=8
for r in R16: REGW[r]=16
for r in R32: REGW[r]=32
IMMS=[0,1,0x7f,0x80,0xff,0x100,0x7fff,0x8000,0xffff,0x10000,0x7fffffff,0x80000000,0xffffffff,-1,-0x7f,-0x80,-0x81,-0x100,-0x7fff,-0x8000,-0x8001,-0x7fffffff,-0x80000000]
def run(srcs):
    out=[]
    for i in range(0,len(srcs),4000):
        chunk=srcs[i:i+4000]
        p=subprocess.run(['/tmp/exp/probe','/tmp/exp/census.out'], input=('\x00'.join(chunk)).encode(), capture_output=True)
        o=[json.loads(l) for l in p.stdout.decode().splitlines()]
        assert len(o)==len(chunk),(len(o),len(chunk),p.stderr[-500:])
        out+=o
    return out
def objdump_all(items):
    # items: list of (hex, mode); returns list of [(len, text)...] decoded within slot
    res=[None]*len(items)
    for mode in (16,32):
        idx=[i for i,(h,m) in enumerate(items) if m==mode and h]
        if not idx: continue
        buf=bytearray()
        for i in idx:
            b=bytes.fromhex(items[i][0])[:15]
            buf+=b+b'\x90'*(32-len(b))
        open('/tmp/exp/census.bin','wb').write(buf)
        o=subprocess.run(['objdump','-D','-b','binary','-m','i8086' if mode==16 else 'i386','-M','intel','--insn-width=16','-z','/tmp/exp/census.bin'],capture_output=True).stdout.decode().splitlines()[7:]
        per=collections.defaultdict(list)
        for l in o:
            m=re.match(r'\s*([0-9a-f]+):\t([0-9a-f ]+?)\s*\t(.*)$',l)
            if not m: continue
            addr=int(m.group(1),16); n=len(m.group(2).split()); txt=m.group(3).strip()
            per[addr//32].append((addr%32,n,txt))
        for k,i in enumerate(idx):
            L=len(bytes.fromhex(items[i][0]))
            ins=[(a,n,t) for (a,n,t) in per[k] if a<L]
            res[i]=ins
    return res
def parse_mem(s):
    # returns (size, seg, {reg:coeff}, disp)
    m=re.match(r'(?:(BYTE|WORD|DWORD|FWORD|QWORD|TBYTE) PTR )?(?:(\w\w):)?(\[.*\]|0x[0-9a-f]+)$',s)
    if not m: return None
    size={'BYTE':8,'WORD':16,'DWORD':32,None:None}.get(m.group(1),m.group(1))
    seg=m.group(2); body=m.group(3)
    lin=collections.Counter(); disp=0
    if body.startswith('0x'): return (size,seg,{},int(body,16))
    for t in re.findall(r'[+-]?[^+-]+',body[1:-1]):
        sign=-1 if t[0]=='-' else 1; t=t.lstrip('+-')
        if t.startswith('0x'): disp+=sign*int(t,16)
        elif '*' in t:
            r,c=t.split('*'); lin[r.upper()]+=int(c)
        else: lin[t.upper()]+=1
    return (size,seg,dict(lin),disp)
def parse_op(s):
    s=s.strip()
    if s.upper() in REGW: return ('reg',s.upper())
    if s.upper() in SREG: return ('sreg',s.upper())
    if re.match(r'cr\d$',s): return ('creg',s.upper())
    if re.match(r'0x[0-9a-f]+$',s): return ('imm',int(s,16))
    pm=parse_mem(s)
    if pm: return ('mem',)+pm
    return ('?',s)
def split_ops(t):
    parts=t.split(None,1)
    mn=parts[0]; ops=[]
    if len(parts)>1:
        ops=[parse_op(x) for x in parts[1].split(',')]
    return mn,ops
