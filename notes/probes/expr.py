import sys, random
sys.path.insert(0,'/tmp/exp')
from meta import hexes
random.seed(3)
LIT=[0,1,2,3,7,10,255,256,0x7f,0x80,0xffff,0x10000,0x7fffffff,-1,-7,-128]
def gen(d):
    if d==0 or random.random()<0.25:
        v=random.choice(LIT)
        t=random.choice([str(v), hex(v) if v>=0 else str(v)])
        return t,v,True
    op=random.choice('+-*/%')
    a,av,aa=gen(d-1); b,bv,ba=gen(d-1)
    if op in '/%' and bv==0: op='+'
    def trunc_div(x,y):
        q=abs(x)//abs(y); return q if (x>=0)==(y>=0) else -q
    if op=='+': v=av+bv
    elif op=='-': v=av-bv
    elif op=='*': v=av*bv
    elif op=='/': v=trunc_div(av,bv)
    else: v=av-bv*trunc_div(av,bv)
    # parenthesize children as needed (and sometimes redundantly)
    def wrap(t,atomic,need): return '('+t+')' if (need or random.random()<0.2) and not atomic or (atomic and random.random()<0.1) else t
    # child precedence
    def prec(t,atomic): 
        return 3 if atomic else None
    ta=wrap(a,aa,True) ; tb=wrap(b,ba,True)
    sp=random.choice(['',' ','  '])
    return ta+sp+op+sp+tb, v, False
cases=[]
for _ in range(3000):
    t,v,_a=gen(random.randint(1,4))
    if abs(v)>=2**62: continue
    cases.append((t,v))
hs=hexes([f'DD {t}\n' for t,v in cases])
bad=0
for (t,v),h in zip(cases,hs):
    exp=(v & 0xffffffff).to_bytes(4,'little').hex()
    if h!=exp:
        bad+=1
        if bad<=8: print('mismatch',t,'want',v,exp,'got',h[:80])
print('C06 DD mismatches',bad,'of',len(cases))
# no-paren precedence/associativity
cases=[]
for _ in range(3000):
    n=random.randint(2,6)
    toks=[str(random.choice([1,2,3,5,7,10,100,255,-3,-7]))]
    for i in range(n-1):
        toks.append(random.choice(['+','-','*','/','%'])); toks.append(str(random.choice([1,2,3,5,7,10,100,255,-3,-7])))
    s=' '.join(toks) if random.random()<0.5 else ''.join(toks)
    # evaluate with precedence, trunc division
    def ev(tokens):
        vals=[int(tokens[0])]; ops=[]
        for i in range(1,len(tokens),2):
            op=tokens[i]; b=int(tokens[i+1])
            if op in '*/%':
                a=vals.pop()
                if op=='*': vals.append(a*b)
                else:
                    q=abs(a)//abs(b); q=q if (a>=0)==(b>=0) else -q
                    vals.append(q if op=='/' else a-b*q)
            else: ops.append(op); vals.append(b)
        r=vals[0]
        for op,v in zip(ops,vals[1:]): r = r+v if op=='+' else r-v
        return r
    cases.append((s,ev(toks)))
hs=hexes([f'DD {t}\n' for t,v in cases]); bad=0
for (t,v),h in zip(cases,hs):
    exp=(v & 0xffffffff).to_bytes(4,'little').hex()
    if h!=exp:
        bad+=1
        if bad<=8: print('mismatch',repr(t),'want',v,exp,'got',h[:80])
print('C06 flat mismatches',bad,'of',len(cases))
