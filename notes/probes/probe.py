import subprocess, json, sys
def run(srcs):
    p = subprocess.run(['/tmp/exp/probe','/tmp/exp/probe.out'], input=('\x00'.join(srcs)).encode(), capture_output=True)
    out=[json.loads(l) for l in p.stdout.decode().splitlines()]
    if len(out)!=len(srcs):
        print("WORKER DIED after", len(out), "of", len(srcs), p.stderr.decode()[-2000:])
    return out
def dis(hexs, mode):
    import tempfile, os
    b=bytes.fromhex(hexs)
    if not b: return ''
    fn='/tmp/exp/d.bin'; open(fn,'wb').write(b)
    m='i8086' if mode==16 else 'i386'
    o=subprocess.run(['objdump','-D','-b','binary','-m',m,'-M','intel',fn],capture_output=True).stdout.decode().splitlines()[7:]
    return ' ; '.join(' '.join(l.split('\t')[2:]).strip() for l in o)
if __name__=='__main__':
    import time
    srcs=[l for l in sys.stdin.read().split('\n===\n') if l.strip()]
    t=time.time()
    for r in run(srcs):
        mode=32 if '[BITS 32]' in r['src'] else 16
        print(repr(r['src']), '->', r.get('perr') or r.get('panic') or r['hex'], '|', dis(r['hex'],mode) if r['hex'] else '', '|', [d.split('] ',1)[-1][:90] for d in r.get('diag',[]) if 'Wrapping in ImmExp' not in d])
    print('time',time.time()-t, file=sys.stderr)
