import sys, random, re
sys.path.insert(0,'/tmp/exp')
from meta import stmt, hexes, R16
random.seed(5)
def prog(nl=4, n=14, org=None):
    labels=[f'L{i}' for i in range(nl)]
    body=[]
    pos=sorted(random.sample(range(n),nl))
    for i in range(n):
        if i in pos: body.append(labels[pos.index(i)]+':')
        r=random.random()
        if r<0.15: body.append(f'MOV {random.choice(R16)},{random.choice(labels)}')
        elif r<0.3: body.append(f'{random.choice(["JMP","JE","JNZ","JC","JAE","CALL"])} {random.choice(labels)}')
        elif r<0.36: 
            # DW of an already defined label
            d=[l for l in labels if l+':' in body]
            if d: body.append(f'DW {random.choice(d)}')
        elif r<0.4: body.append('DW $')
        else: body.append(stmt())
    if org is not None: body=[f'ORG {org}']+body
    return body
def render(b): return '\n'.join(('' if s.endswith(':') else '\t')+s for s in b)+'\n'
# C15 rename
N=300
progs=[prog() for _ in range(N)]
base=hexes([render(p) for p in progs])
print('base errors',sum(1 for h in base if h.startswith('ERR')), 'empty', sum(1 for h in base if not h))
fam=[['a','aa','a_','A'],['x1','x10','x100','x1000'],['lbl_with_a_really_long_name_0123456789','lbl_with_a_really_long_name_012345678','l','ll'],['_','__','_0','_a'],['zz','zZ','Zz','ZZ']]
bad=0; shown=0
ren=[]
for p in progs:
    names=random.choice(fam); random.shuffle(names)
    m={f'L{i}':names[i] for i in range(4)}
    q=[re.sub(r'\bL(\d)\b',lambda mo:m['L'+mo.group(1)],s) for s in p]
    ren.append(q)
hr=hexes([render(q) for q in ren])
for p,q,h0,h1 in zip(progs,ren,base,hr):
    if h0!=h1:
        bad+=1
        if shown<3: shown+=1; print('C15 mismatch',q[:8],h0[:60],h1[:60])
print('C15 rename mismatches',bad,'of',N)
# C16 ORG
pairs=[(0,0x100),(0x100,0x7c00),(0x7c00,0xc200),(None,0),(0x8000,0xfff0)]
bad=0; shown=0
for (a,b) in pairs:
    A=[]; B=[]
    for p in progs[:120]:
        A.append(render(([f'ORG {a}'] if a is not None else [])+p)); B.append(render([f'ORG {b}']+p))
    ha=hexes(A); hb=hexes(B)
    for p,x,y in zip(progs,ha,hb):
        if len(x)!=len(y): 
            bad+=1
            if shown<3: shown+=1; print('C16 length differs',a,b,p[:6])
            continue
        # differing byte positions
        diffs=[i for i in range(0,len(x),2) if x[i:i+2]!=y[i:i+2]]
        # crude: every differing word must differ by delta (16-bit) at some alignment
        delta=((b or 0)-(a or 0))&0xffff
        bx=bytes.fromhex(x); by=bytes.fromhex(y); i=0; ok=True
        while i<len(bx):
            if bx[i]!=by[i] or (i+1<len(bx) and bx[i+1]!=by[i+1] and bx[i]==by[i] and False):
                if i+1<len(bx):
                    va=bx[i]|bx[i+1]<<8; vb=by[i]|by[i+1]<<8
                    if (vb-va)&0xffff==delta: i+=2; continue
                # maybe low byte equal, high byte differs: step back
                if i>0:
                    va=bx[i-1]|bx[i]<<8; vb=by[i-1]|by[i]<<8
                    if (vb-va)&0xffff==delta: i+=1; continue
                ok=False; break
            i+=1
        if not ok:
            bad+=1
            if shown<3: shown+=1; print('C16 bad diff',a,b,p[:8],x[:80],y[:80])
print('C16 mismatches',bad)
# C11 EQU
bad=0; shown=0; tot=0
A=[];B=[]
for _ in range(300):
    body=[stmt() for _ in range(8)]
    # find decimal/hex literals in non-string statements
    defs=[]; out=[]; inl=[]
    for s in body:
        if '"' in s: out.append(s); inl.append(s); continue
        def rep(mo):
            if random.random()<0.5 or mo.group(0).startswith('-'): return mo.group(0)
            name=f'K{len(defs)}'
            if defs and random.random()<0.4:
                prev,pv=random.choice(defs)[0:2]
                val=int(mo.group(0),0)
                expr=f'{prev}+{val-pv}' if val-pv>=0 else f'{prev}-{pv-val}'
                defs.append((name,val,expr))
            else:
                defs.append((name,int(mo.group(0),0),mo.group(0)))
            return name
        head,_,ops=s.partition(' ')
        if not ops: out.append(s); inl.append(s); continue
        new=re.sub(r'(?<![\w])(-?0x[0-9a-fA-F]+|-?\d+)(?![\w])',rep,ops)
        out.append(head+' '+new); inl.append(s)
    A.append('\n'.join([f'{n} EQU {e}' for n,v,e in defs]+out)+'\n'); B.append('\n'.join(inl)+'\n')
ha=hexes(A); hb=hexes(B)
for a,b,x,y in zip(A,B,ha,hb):
    if x!=y:
        bad+=1
        if shown<4: shown+=1; print('C11 mismatch',repr(a[:300]),x[:60],y[:60])
print('C11 mismatches',bad,'of',len(A))
