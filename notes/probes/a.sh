#!/bin/bash
# usage: a.sh [16|32] <<< source ; assembles and disassembles
mode=${1:-16}
src=/tmp/exp/in.$$.nas; out=/tmp/exp/out.$$.bin
cat > $src
/tmp/exp/gosk $src $out >/tmp/exp/stdout.$$ 2>/tmp/exp/stderr.$$; rc=$?
echo "rc=$rc"; grep -v '^source:' /tmp/exp/stdout.$$; grep -iE 'error|warn|panic|fatal' /tmp/exp/stderr.$$ | head -${ELINES:-8}
xxd $out | head -${XL:-10}
if [ "$mode" = 16 ]; then m=i8086; else m=i386; fi
[ -s $out ] && objdump -D -b binary -m $m -M intel $out | tail -n +8 | head -${DL:-30}
rm -f $src $out /tmp/exp/stdout.$$ /tmp/exp/stderr.$$
