#!/bin/bash
# builds the harness (stdlib only) from files on disk; offline
set -e
cd "$(dirname "$0")"
export GOFLAGS=-mod=mod GOPROXY=off GOSUMDB=off GOTOOLCHAIN=local CGO_ENABLED=0
mkdir -p bin evidence
(cd harness && go build -o ../bin/vcheck .)
for t in objdump as llvm-readobj llvm-mc; do command -v $t >/dev/null 2>&1 && echo "tool present: $t" || echo "tool absent: $t"; done
echo "setup ok"
