#!/bin/bash
# usage: runmut2.sh <abs patch.diff> <prop> [tier]
# Like runmut.sh, but leaves /repo and /verif/evidence alone: the change is applied to a scratch worktree of /repo's HEAD and the
# check runs against it (VERIF_REPO) from a scratch copy of /verif (VERIF_DIR; copied from $VERIF_SRC when set, e.g. a `vp run`
# snapshot in which ./setup.sh has been run).  Several can run side by side.
patch=$1; prop=$2; tier=${3:-quick}
id=$$.$RANDOM
wt=/tmp/mutwt/$id; vc=/tmp/mutvc/$id
mkdir -p /tmp/mutwt /tmp/mutvc
git -C /repo worktree add --detach $wt HEAD >/dev/null 2>&1 || { echo "cannot create worktree"; exit 9; }
if ! git -C $wt apply "$patch" 2>/tmp/mutwt/$id.err; then echo "PATCH DOES NOT APPLY: $(head -1 /tmp/mutwt/$id.err)"; git -C /repo worktree remove --force $wt; rm -f /tmp/mutwt/$id.err; exit 8; fi
rm -f /tmp/mutwt/$id.err
mkdir -p $vc
rsync -a --exclude .git --exclude seeded --exclude evidence --exclude replays ${VERIF_SRC:-/verif}/ $vc/
mkdir -p $vc/evidence
( cd $vc && VERIF_REPO=$wt VERIF_DIR=$vc ./bin/vcheck $prop $tier > $vc/out.txt 2>&1 ); rc=$?
grep -c '^VIOLATION' $vc/out.txt | sed 's/^/violation lines: /'
grep -A2 '^VIOLATION' $vc/out.txt | head -${LINES_OUT:-6} | cut -c1-${COLS_OUT:-300}
tail -1 $vc/out.txt | cut -c1-300
echo "exit=$rc"
git -C /repo worktree remove --force $wt >/dev/null 2>&1
rm -rf $vc
